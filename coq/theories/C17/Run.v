(* C17 - evaluation entry points for the correspondence harness. *)
From CfdmV Require Import Common.Base Tables.AppendConstants C17.Model C17.Spec.
Open Scope string_scope.
Open Scope list_scope.

Definition dim_eqb (a b : string * Z) : bool := String.eqb (fst a) (fst b) && Z.eqb (snd a) (snd b).

Definition ref_eqb (a b : string * list (string * string)) : bool :=
  String.eqb (fst a) (fst b) && list_eqb pair_eqb (snd a) (snd b).

Definition set_eqb {A} (eqb : A -> A -> bool) (l1 l2 : list A) : bool :=
  forallb (fun a => existsb (eqb a) l2) l1 && forallb (fun a => existsb (eqb a) l1) l2 &&
  Nat.eqb (length l1) (length l2).

Definition var_eqb (a b : var) : bool :=
  String.eqb (v_name a) (v_name b) && list_eqb String.eqb (v_dims a) (v_dims b) &&
  set_eqb pair_eqb (v_attrs a) (v_attrs b) && set_eqb ref_eqb (v_refs a) (v_refs b).

(* files are compared as sets of dimensions and of variables: the order in
   which the library lists them is not part of the property *)
Definition file_eqb (a b : file) : bool :=
  set_eqb dim_eqb (d_dims a) (d_dims b) && set_eqb var_eqb (d_vars a) (d_vars b) &&
  set_eqb pair_eqb (d_gatts a) (d_gatts b).

Definition outcome_code (o : outcome) : nat :=
  match o with Done => 0 | Refused => 1 | Failed => 2 end.

(* a case: format is NETCDF4?, the file before (netCDF4-python), the fields
   cfdm reads from it, the fields appended, and what the implementation did:
   outcome class and the file afterwards *)
(* a case: spelling of the mode, format is NETCDF4?, write options, the file
   before (netCDF4-python), the fields cfdm reads from it, the fields
   appended, and what the implementation did: outcome class (0 done,
   1 refused, 2 failed, 3 mode rejected) and the file afterwards *)
Definition call_code (o : call_outcome) : nat :=
  match o with CAppend x => outcome_code x | CBadMode => 3 | CNotAppend => 4 end.

Definition run_case (vr : variant)
           (cs : string * bool * gopts * file * list field * list field * file * nat) : bool :=
  let '(sp, nc4, o, e, orig, new, e', oc) := cs in
  let '(fl, out) := write_call vr sp nc4 o e orig new in
  Nat.eqb (call_code out) oc &&
  match out with CAppend Failed => true | _ => file_eqb fl e' end.

Definition check_case := run_case new_code.
Definition check_case_old := run_case old_code.

(* the refusal decision alone (for requests outside the modelled fragment) *)
Definition check_refusal (cs : bool * list field * list field * bool) : bool :=
  let '(nc4, orig, new, refused) := cs in Bool.eqb (refuse new_code nc4 orig new) refused.

(* debugging aid: the model's file *)
Definition model_file (cs : string * bool * gopts * file * list field * list field * file * nat) :=
  let '(sp, nc4, o, e, orig, new, e', oc) := cs in write_call new_code sp nc4 o e orig new.

(* cfdm.write(mode='w') of the file that exists before the appends: the
   global attributes that the model says are written (the other side of the
   guard in _write_global_attributes), and the whole file *)
Definition check_created_globals (cs : gopts * list field * props) : bool :=
  let '(o, fs, gatts) := cs in
  let s := create_run new_code o fs in
  w_err s || set_eqb pair_eqb (d_gatts (w_file s)) gatts.

Definition check_created (cs : gopts * list field * file) : bool :=
  let '(o, fs, fl) := cs in
  let s := create_run new_code o fs in
  w_err s || file_eqb (w_file s) fl.

(* the hypothesis of C17_old_fields on the real re-read: the dry run over
   what cfdm.read returned registers every name of the file (netCDF4 view) *)
Definition check_covers (cs : file * list field) : bool :=
  let '(e, orig) := cs in covers new_code e orig.

(* the abstract reader against cfdm.read: the data variables of the file are
   the netCDF variables of the fields read from it.  Waived when a data
   variable carries a bounds attribute (a domain ancillary left without
   formula_terms by the open finding, written with its bounds since commit
   32b7c9f): cfdm.read ignores that attribute on a data variable and returns
   the bounds variable as a field as well, the model reader counts it as
   referenced. *)
Definition data_var_with_bounds (e : file) : bool :=
  existsb (fun v => existsb (fun r => String.eqb (fst r) "bounds") (v_refs v)) (data_vars e).

Definition check_reader (cs : file * list field) : bool :=
  let '(e, orig) := cs in
  data_var_with_bounds e ||
  (set_eqb String.eqb (map v_name (data_vars e))
           (concat (map (fun f => match f_ncvar f with Some n => [n] | None => [] end) orig)) &&
   Nat.eqb (length (data_vars e)) (length orig)).

Definition reader_waived (cs : file * list field) : bool := negb (data_var_with_bounds (fst cs)).
