(* C17 - what the property text and the documentation of cfdm.write(mode='a')
   say, independently of how the writer is coded. *)
From CfdmV Require Import Common.Base C17.Model.
Open Scope string_scope.
Open Scope list_scope.

(* "leaves every variable, dimension and global attribute as it was":
   the file afterwards is the file before with dimensions and variables added
   at the end; the global attributes are the same list *)
Definition extends (e e' : file) : Prop :=
  (exists dd, d_dims e' = d_dims e ++ dd) /\
  (exists vv, d_vars e' = d_vars e ++ vv) /\
  d_gatts e' = d_gatts e.

(* documented as unsupported (docstring of cfdm.write, mode 'a'):
   "fields with groups cannot be appended" and "fields with incompatible
   featureType to the original file cannot be appended": a field's
   featureType is the value forced through nc_set_global_attribute or else
   its featureType property; it is compatible iff it is the file's *)
Definition ft_incompatible (file_ft : option string) (f : field) : bool :=
  match field_ft f with
  | Some t => negb (option_eqb String.eqb file_ft (Some t))
  | None => false
  end.

Definition unsupported (file_ft : option string) (new : list field) : bool :=
  has_groups new || existsb (ft_incompatible file_ft) new.

(* a property of an appended field is either written on its data variable
   or held by the file as a global attribute with that very value *)
Definition kept_or_held (gatts : props) (gl : list string) (a x : string) : Prop :=
  smem a gl = false \/ assoc a gatts = Some x.

Definition no_modification (l : list event) : Prop := forallb (fun ev => negb (modifying ev)) l = true.
