(* C17 - what the property text and the documentation of cfdm.write(mode='a')
   say, independently of how the writer is coded. *)
From CfdmV Require Import Common.Base C17.Model.
Open Scope string_scope.
Open Scope list_scope.

(* "leaves every variable, dimension and global attribute as it was":
   the file afterwards is the file before with dimensions and variables added
   at the end; the global attributes are the same list *)
Definition extends (e e' : file) : Prop :=
  (exists dd, d_dims e' = d_dims e ++ dd) /\
  (exists vv, d_vars e' = d_vars e ++ vv) /\
  d_gatts e' = d_gatts e.

(* documented as unsupported (docstring of cfdm.write, mode 'a'):
   "fields with groups cannot be appended" and "fields with incompatible
   featureType to the original file cannot be appended": a field's
   featureType is the value forced through nc_set_global_attribute or else
   its featureType property; it is compatible iff it is the file's *)
Definition ft_incompatible (file_ft : option string) (f : field) : bool :=
  match field_ft f with
  | Some t => negb (option_eqb String.eqb file_ft (Some t))
  | None => false
  end.

Definition unsupported (file_ft : option string) (new : list field) : bool :=
  has_groups new || existsb (ft_incompatible file_ft) new.

(* a property of an appended field is either written on its data variable
   or held by the file as a global attribute with that very value *)
Definition kept_or_held (gatts : props) (gl : list string) (a x : string) : Prop :=
  smem a gl = false \/ assoc a gatts = Some x.

Definition no_modification (l : list event) : Prop := forallb (fun ev => negb (modifying ev)) l = true.

(* ---- what the re-read must have given the writer (hypothesis of the old-fields theorem,
        evaluated on every generated case by Run.check_covers) ------------------------------ *)
(* every name that occurs in the file: dimensions, variables, names in
   reference attributes, dimensions of variables *)
Definition names_of (e : file) : list string :=
  map fst (d_dims e) ++ map v_name (d_vars e) ++ referenced e ++ concat (map v_dims (d_vars e)).

Definition dnames (e : file) : list string := map v_name (data_vars e).

(* the dry run over [orig] (what cfdm.read returned for E) has registered
   every name of E as being in use, has registered no data variable of E as
   the variable of a coordinate-like construct or of bounds; the dimensions
   of E's data variables exist *)
Definition covers (vr : variant) (e : file) (orig : list field) : bool :=
  let s := dry_run vr e orig in
  forallb (fun n => smem n (existing s)) (names_of e) &&
  forallb (fun en => negb (smem (e_ncvar en) (dnames e))) (w_seen s) &&
  forallb (fun p => negb (smem (snd p) (dnames e))) (w_bnds s) &&
  forallb (fun v => forallb (fun d => match assoc d (d_dims e) with Some _ => true | None => false end) (v_dims v))
          (data_vars e).
