(* C17 - proofs. *)
From CfdmV Require Import Common.Base Tables.AppendConstants C17.Model C17.Spec.
From Coq Require Import DecimalString DecimalNat FinFun.
Open Scope string_scope.
Open Scope list_scope.

Lemma smem_In x l : smem x l = true <-> In x l.
Proof.
  unfold smem. rewrite existsb_exists. split.
  - intros [y [Hy E]]. apply String.eqb_eq in E. subst. exact Hy.
  - intro H. exists x. split; [exact H | apply String.eqb_refl].
Qed.

Lemma smem_false x l : smem x l = false -> ~ In x l.
Proof. intros H Hin. apply smem_In in Hin. congruence. Qed.

(* ------------------------------------------------------------------------ *)
(* 1. Preservation: whatever the writer does, the file only grows            *)
(* ------------------------------------------------------------------------ *)
Definition ext (e : file) (s : wst) : Prop :=
  (exists dd, d_dims (w_file s) = d_dims e ++ dd) /\
  (exists vv, d_vars (w_file s) = d_vars e ++ vv) /\
  d_gatts (w_file s) = d_gatts e /\
  (forall n, In n (w_created s) -> ~ In n (map v_name (d_vars e))).

Definition nvars (s : wst) : nat := length (d_vars (w_file s)).

(* s' is reached from s by writer steps: the file only grows, an error is
   never forgotten, variables are never removed *)
Definition le (s s' : wst) : Prop :=
  (forall e, ext e s -> ext e s') /\ (w_err s = true -> w_err s' = true) /\ (nvars s <= nvars s')%nat.

Lemma le_refl s : le s s.
Proof. split; [intros e H; exact H | split; auto]. Qed.

Lemma le_trans s1 s2 s3 : le s1 s2 -> le s2 s3 -> le s1 s3.
Proof.
  intros (A1 & A2 & A3) (B1 & B2 & B3).
  split; [intros e H; apply B1, A1, H | split; [auto | eapply Nat.le_trans; eassumption]].
Qed.

Lemma le_same s s' : w_file s' = w_file s -> w_created s' = w_created s ->
  (w_err s = true -> w_err s' = true) -> le s s'.
Proof.
  intros Hf Hc He. split; [|split; [exact He | unfold nvars; rewrite Hf; auto]].
  intros e H. unfold ext in *. rewrite Hf, Hc. exact H.
Qed.

Ltac le_same := apply le_same; [reflexivity | reflexivity | simpl; auto].

Lemma le_set_err s : le s (set_err s).
Proof. le_same. Qed.

Lemma le_create_dim m n z s : le s (create_dim m n z s).
Proof.
  unfold create_dim. destruct (m_dry m || w_err s); [apply le_refl|].
  destruct (smem n _); [apply le_set_err|].
  split; [|split; [simpl; auto | unfold nvars; simpl; auto]].
  intros e (Hd & Hv & Hg & Hc). unfold ext; simpl. repeat split; auto.
  destruct Hd as [dd Hd]. exists (dd ++ [(n, z)]). rewrite Hd, app_assoc. reflexivity.
Qed.

Lemma le_create_var m v s : le s (create_var m v s).
Proof.
  unfold create_var. destruct (m_dry m || w_err s); [apply le_refl|].
  destruct (smem (v_name v) _) eqn:E; [apply le_set_err|].
  split; [|split; [simpl; auto | unfold nvars; simpl; rewrite app_length; simpl; lia]].
  intros e (Hd & Hv & Hg & Hc). unfold ext; simpl. repeat split; auto.
  - destruct Hv as [vv Hv]. exists (vv ++ [v]). rewrite Hv, app_assoc. reflexivity.
  - intros n [Hn | Hn]; [|auto]. subst n. intro Hin.
    apply smem_false in E. apply E. destruct Hv as [vv Hv]. rewrite Hv, map_app.
    apply in_or_app. left. exact Hin.
Qed.

Lemma le_set_created_ref m n a l s : le s (set_created_ref m n a l s).
Proof.
  unfold set_created_ref. destruct (m_dry m || w_err s); [apply le_refl|].
  destruct (smem n (w_created s)) eqn:E; [|apply le_refl].
  split; [|split; [simpl; auto | unfold nvars; simpl; rewrite map_length; auto]].
  intros e (Hd & Hv & Hg & Hc). unfold ext; simpl. repeat split; auto.
  destruct Hv as [vv Hv]. rewrite Hv, map_app.
  eexists. f_equal.
  rewrite <- (map_id (d_vars e)) at 2. apply map_ext_in.
  intros v Hin. destruct (String.eqb (v_name v) n) eqn:En; [|reflexivity].
  apply String.eqb_eq in En. exfalso. apply smem_In in E. apply (Hc n E).
  rewrite <- En. apply in_map. exact Hin.
Qed.

Lemma le_netcdf_name b s : le s (snd (netcdf_name b s)).
Proof.
  unfold netcdf_name. destruct (smem b (existing s)).
  - destruct (first_free _ _ _ _); simpl; [le_same | apply le_set_err].
  - simpl. le_same.
Qed.

Lemma le_netcdf_name_m m b s : le s (snd (netcdf_name_m m b s)).
Proof.
  unfold netcdf_name_m. destruct (m_dry m && fx_norename (m_var m)); [simpl; le_same | apply le_netcdf_name].
Qed.

Lemma le_write_var m n dims c attrs refs s : le s (write_var m n dims c attrs refs s).
Proof.
  unfold write_var. eapply le_trans; [|apply le_create_var]. le_same.
Qed.

Lemma le_write_bounds m k c cd cv s : le s (snd (write_bounds m k c cd cv s)).
Proof.
  unfold write_bounds. destruct (c_bnd c) as [b|]; [|apply le_refl].
  set (size := last (b_shape b) 0%Z).
  destruct (find _ (w_bdims s)) as [d|].
  - (* existing bounds dimension *)
    destruct (find_seen _ _ _ s) as [e0|]; simpl; [le_same|].
    match goal with |- context [netcdf_name_m ?mm ?b ?s0] => pose proof (le_netcdf_name_m mm b s0) as Hn;
      destruct (netcdf_name_m mm b s0) as [bv s3] eqn:En end. simpl in *.
    eapply le_trans; [|le_same].
    eapply le_trans; [|apply le_write_var].
    eapply le_trans; [|exact Hn].
    destruct (negb _); [|apply le_refl].
    eapply le_trans; [|apply le_create_dim]. le_same.
  - match goal with |- context [netcdf_name_m ?mm ?b ?s0] => pose proof (le_netcdf_name_m mm b s0) as Hn0;
      destruct (netcdf_name_m mm b s0) as [n0 s0'] eqn:En0 end. simpl in Hn0.
    destruct (find_seen _ _ _ _) as [e0|]; simpl.
    + eapply le_trans; [exact Hn0|]. eapply le_trans; [|le_same]. le_same.
    + match goal with |- context [netcdf_name_m ?mm ?b ?s0] => pose proof (le_netcdf_name_m mm b s0) as Hn;
        destruct (netcdf_name_m mm b s0) as [bv s3] eqn:En end. simpl in *.
      eapply le_trans; [|le_same].
      eapply le_trans; [|apply le_write_var].
      eapply le_trans; [|exact Hn].
      eapply le_trans; [exact Hn0|].
      eapply le_trans; [|]. 2:{ destruct (negb _); [|apply le_refl].
                                 eapply le_trans; [|apply le_create_dim]. le_same. }
      le_same.
Qed.

Ltac with_name :=
  match goal with |- context [netcdf_name_m ?mm ?b ?s0] =>
    let H := fresh "Hn" in let E := fresh "En" in
    pose proof (le_netcdf_name_m mm b s0) as H; destruct (netcdf_name_m mm b s0) eqn:E; simpl in H end.

Ltac with_bounds :=
  match goal with |- context [write_bounds ?m ?k ?c ?cd ?cv ?s0] =>
    let H := fresh "Hb" in let E := fresh "Eb" in
    pose proof (le_write_bounds m k c cd cv s0) as H; destruct (write_bounds m k c cd cv s0) eqn:E; simpl in H end.

Lemma le_dimcoord_name m ax k c s : le s (snd (dimcoord_name m ax k c s)).
Proof.
  unfold dimcoord_name. destruct (fx_dimname (m_var m)).
  - destruct (a_ncdim ax); destruct (k_ncvar k); try destruct (name_of k c None); apply le_netcdf_name_m.
  - destruct (name_of k c None); [apply le_netcdf_name_m|].
    destruct (a_ncdim ax); [apply le_refl | apply le_netcdf_name_m].
Qed.

Lemma le_write_dimcoord m used ax k c s : le s (snd (write_dimcoord m used ax k c s)).
Proof.
  unfold write_dimcoord.
  destruct (match find_seen false c None s with Some e => _ | None => None end) as [r|];
    [simpl; apply le_refl|].
  pose proof (le_dimcoord_name m ax k c s) as Hn.
  destruct (dimcoord_name m ax k c s) as [nv s1]. simpl in Hn. with_bounds. simpl.
  eapply le_trans; [exact Hn|]. eapply le_trans; [|apply le_write_var].
  eapply le_trans; [|exact Hb]. eapply le_trans; [|apply le_create_dim]. le_same.
Qed.

Lemma le_write_scalar m k c s : le s (snd (write_scalar m k c s)).
Proof.
  unfold write_scalar. destruct (find_seen _ _ _ s); [simpl; apply le_refl|].
  with_name. with_bounds. simpl.
  eapply le_trans; [exact Hn|]. eapply le_trans; [|apply le_write_var]. exact Hb.
Qed.

Lemma le_write_aux m k d s : le s (snd (write_aux m k d s)).
Proof.
  unfold write_aux. destruct (find_seen _ _ _ s); [simpl; apply le_refl|].
  with_name. with_bounds. simpl.
  eapply le_trans; [exact Hn|]. eapply le_trans; [|apply le_write_var]. exact Hb.
Qed.

Lemma le_write_anc m k d df s : le s (snd (write_anc m k d df s)).
Proof.
  unfold write_anc. destruct (find_seen _ _ _ s); [simpl; apply le_refl|].
  with_name. with_bounds. simpl.
  eapply le_trans; [exact Hn|]. eapply le_trans; [|apply le_write_var]. exact Hb.
Qed.

Lemma le_write_msr m k d s : le s (snd (write_msr m k d s)).
Proof.
  unfold write_msr. destruct (find_seen _ _ _ s); [simpl; apply le_refl|].
  with_name. simpl. eapply le_trans; [exact Hn|]. apply le_write_var.
Qed.

Lemma le_write_axis m f dims i ax x s : le s (snd (write_axis m f dims i ax (x, s))).
Proof.
  unfold write_axis. destruct (dim_for i dims 0) as [[p k]|].
  - destruct (nmem i (f_daxes f)).
    + pose proof (le_write_dimcoord m (map snd (x_a2d x)) ax k (k_c k) s) as H.
      destruct (write_dimcoord m (map snd (x_a2d x)) ax k (k_c k) s) as [[nv nd] s1]. exact H.
    + pose proof (le_write_scalar m k (k_c k) s) as H.
      destruct (write_scalar m k (k_c k) s) as [nv s1]. exact H.
  - destruct (nmem i (f_daxes f)); [|apply le_refl].
    destruct (pick_dim m f i ax x s);
      [simpl; apply le_refl|].
    with_name. simpl. eapply le_trans; [exact Hn|].
    eapply le_trans; [|apply le_create_dim]. le_same.
Qed.

Lemma le_write_axes m f dims axs : forall i x s, le s (snd (write_axes m f dims i axs (x, s))).
Proof.
  induction axs as [|ax r IH]; intros i x s; cbn [write_axes snd]; [apply le_refl|].
  pose proof (le_write_axis m f dims i ax x s) as H.
  destruct (write_axis m f dims i ax (x, s)) as [x1 s1]. simpl in H.
  eapply le_trans; [exact H | apply IH].
Qed.

Lemma le_write_auxs m x l : forall acc s, le s (snd (write_auxs m x l acc s)).
Proof.
  induction l as [|k r IH]; intros acc s; cbn [write_auxs snd]; [apply le_refl|].
  pose proof (le_write_aux m k (dims_of x (k_axes k)) s) as H.
  destruct (write_aux m k (dims_of x (k_axes k)) s) as [nv s1]. simpl in H.
  eapply le_trans; [exact H | apply IH].
Qed.

Lemma le_write_ancs m f x l : forall p acc s, le s (snd (write_ancs m f x l p acc s)).
Proof.
  induction l as [|k r IH]; intros p acc s; cbn [write_ancs snd]; [apply le_refl|].
  pose proof (le_write_anc m k (dims_of x (k_axes k)) (anc_default f p) s) as H.
  destruct (write_anc m k (dims_of x (k_axes k)) (anc_default f p) s) as [nv s1]. simpl in H.
  eapply le_trans; [exact H | apply IH].
Qed.

Lemma le_write_msrs m x l : forall acc s, le s (snd (write_msrs m x l acc s)).
Proof.
  induction l as [|k r IH]; intros acc s; cbn [write_msrs snd]; [apply le_refl|].
  pose proof (le_write_msr m k (dims_of x (k_axes k)) s) as H.
  destruct (write_msr m k (dims_of x (k_axes k)) s) as [nv s1]. simpl in H.
  eapply le_trans; [exact H | apply IH].
Qed.

Lemma le_write_formula m f dims x av s : le s (write_formula m f dims x av s).
Proof.
  unfold write_formula. destruct (f_ref f) as [r|]; [|apply le_refl].
  destruct (nth_error dims (r_owner r)) as [ko|]; [|apply le_refl].
  destruct (option_eqb _ _ _); [|apply le_refl].
  destruct (ft_terms _ _ _ _ _) as [|t ts]; [apply le_refl|].
  destruct (lookup_nat _ _) as [ov|]; [|apply le_refl].
  destruct (negb (m_post m) || fx_formula (m_var m)).
  - destruct (assoc ov (w_bnds s)).
    + eapply le_trans; apply le_set_created_ref.
    + apply le_set_created_ref.
  - destruct (assoc ov (w_bnds s)); apply le_refl.
Qed.

Lemma le_write_field m f s : le s (write_field m f s).
Proof.
  unfold write_field. destruct (add_csn f) as [dims bad].
  set (s0 := if bad then set_err s else s).
  assert (H0 : le s s0) by (unfold s0; destruct bad; [apply le_set_err | apply le_refl]).
  pose proof (le_write_axes m f dims (f_axes f) 0
                {| x_a2d := []; x_dimvar := []; x_coords := []; x_span := [] |} s0) as H1.
  destruct (write_axes m f dims 0 (f_axes f) _) as [x s1]. simpl in H1.
  pose proof (le_write_auxs m x (f_aux f) (x_coords x) s1) as H2.
  destruct (write_auxs m x (f_aux f) (x_coords x) s1) as [coords s2]. simpl in H2.
  pose proof (le_write_ancs m f x (f_anc f) 0 [] s2) as H3.
  destruct (write_ancs m f x (f_anc f) 0 [] s2) as [ancvars s3]. simpl in H3.
  pose proof (le_write_msrs m x (f_msr f) [] s3) as H4.
  destruct (write_msrs m x (f_msr f) [] s3) as [msrs s4]. simpl in H4.
  pose proof (le_write_formula m f dims x ancvars s4) as H5.
  with_name.
  eapply le_trans; [exact H0|]. eapply le_trans; [exact H1|]. eapply le_trans; [exact H2|].
  eapply le_trans; [exact H3|]. eapply le_trans; [exact H4|]. eapply le_trans; [exact H5|].
  eapply le_trans; [exact Hn|]. eapply le_trans; [apply le_create_var|]. le_same.
Qed.

Lemma le_write_fields m fs : forall s, le s (write_fields m fs s).
Proof.
  unfold write_fields. induction fs as [|f r IH]; intro s; simpl; [apply le_refl|].
  eapply le_trans; [apply le_write_field | apply IH].
Qed.

Lemma ext_init e : ext e (init e).
Proof.
  unfold ext, init; simpl. repeat split; auto.
  - exists []. symmetry. apply app_nil_r.
  - exists []. symmetry. apply app_nil_r.
Qed.

Lemma le_set_gl gl s : le s (set_gl gl s).
Proof. le_same. Qed.

Lemma le_reopen s : le s (reopen s).
Proof.
  split; [|split; [simpl; auto | unfold nvars; simpl; auto]].
  intros e (Hd & Hv & Hg & Hc). unfold ext; simpl. repeat split; auto.
Qed.

(* _write_global_attributes leaves the file alone in the dry run and in the
   pass that follows it: this is where "global attributes as they were" is
   decided - every attribute, Conventions included *)
Lemma le_write_globals m o fs s :
  m_dry m || m_post m = true -> le s (write_globals m o fs s).
Proof.
  intro Hm. unfold write_globals.
  destruct fs as [|f0 r]; [apply le_set_err|].
  destruct (conv_value o (f0 :: r)) as [cv|]; [|apply le_set_err].
  replace (negb (m_dry m) && negb (m_post m)) with false
    by (destruct (m_dry m), (m_post m); simpl in *; congruence).
  simpl. le_same.
Qed.

Lemma le_dry_run vr e orig : le (init e) (dry_run vr e orig).
Proof.
  unfold dry_run. eapply le_trans; [|le_same]. eapply le_trans; [|apply le_write_fields]. le_same.
Qed.

Lemma le_register_names vr e s : le s (register_names vr e s).
Proof. unfold register_names. destruct (fx_names vr); [le_same | apply le_refl]. Qed.

Lemma le_post_pass vr o new s :
  le s (log [EClose] (write_fields (post_mode vr) new
         (write_globals (post_mode vr) o new (reopen (log [EOpenA] s))))).
Proof.
  eapply le_trans; [|le_same]. eapply le_trans; [|apply le_write_fields].
  eapply le_trans; [|apply le_write_globals; reflexivity].
  eapply le_trans; [|apply le_reopen]. le_same.
Qed.

Lemma append_run_ext vr nc4 o e orig new : ext e (append_run vr nc4 o e orig new).
Proof.
  unfold append_run. destruct (refuse vr nc4 orig new).
  - apply (proj1 (le_set_err (init e))), ext_init.
  - assert (H1 : ext e (dry_run vr e orig)) by (apply (proj1 (le_dry_run vr e orig)), ext_init).
    destruct (w_err _); [exact H1|].
    apply (proj1 (le_post_pass vr o new _)), (proj1 (le_register_names vr e _)), H1.
Qed.

Theorem preserve vr nc4 o e orig new : extends e (fst (append vr nc4 o e orig new)).
Proof.
  unfold append; simpl. destruct (append_run_ext vr nc4 o e orig new) as (Hd & Hv & Hg & _).
  unfold extends. auto.
Qed.

(* the Conventions attribute in particular *)
Corollary conventions_kept vr nc4 o e orig new :
  assoc "Conventions" (d_gatts (fst (append vr nc4 o e orig new))) = assoc "Conventions" (d_gatts e).
Proof. destruct (preserve vr nc4 o e orig new) as (_ & _ & H). rewrite H. reflexivity. Qed.

(* ------------------------------------------------------------------------ *)
(* 2. Refusal comes first                                                     *)
(* ------------------------------------------------------------------------ *)
Theorem refuse_first vr nc4 o e orig new :
  refuse vr nc4 orig new = true ->
  let s := append_run vr nc4 o e orig new in
  w_file s = e /\ w_log s = [ERead; ERaise] /\ no_modification (w_log s) /\
  append vr nc4 o e orig new = (e, Refused).
Proof.
  intro H. unfold append, append_run. rewrite H. simpl. repeat split.
Qed.

Theorem not_refused_outcome vr nc4 o e orig new :
  refuse vr nc4 orig new = false -> snd (append vr nc4 o e orig new) <> Refused.
Proof.
  intro H. unfold append. rewrite H. simpl. destruct (w_err _); discriminate.
Qed.

(* ------------------------------------------------------------------------ *)
(* 3. The repaired decision is the documented one                            *)
(* ------------------------------------------------------------------------ *)
Lemma refuse_ft_new_spec orig new :
  refuse_ft_new orig new = existsb (ft_incompatible (orig_ft orig)) new.
Proof.
  unfold refuse_ft_new.
  set (o := orig_ft orig).
  assert (G : forall l,
    match concat (map (fun f => match field_ft f with Some v => [v] | None => [] end) l) with
    | [] => false
    | x :: r => negb (forallb (fun v => option_eqb String.eqb o (Some v)) (x :: r))
    end = existsb (ft_incompatible o) l).
  { induction l as [|f r IH]; [reflexivity|].
    simpl. unfold ft_incompatible at 1. destruct (field_ft f) as [t|]; simpl.
    - rewrite <- IH. destruct (option_eqb String.eqb o (Some t)); simpl; [|reflexivity].
      destruct (concat _); reflexivity.
    - exact IH. }
  rewrite <- G. destruct (concat _); reflexivity.
Qed.

Theorem refusal_is_documented nc4 orig new :
  refuse new_code nc4 orig new = unsupported (orig_ft orig) new.
Proof.
  unfold refuse, unsupported. simpl. rewrite refuse_ft_new_spec. reflexivity.
Qed.

(* ------------------------------------------------------------------------ *)
(* 4. Properties of an appended field: written, or held by the file           *)
(* ------------------------------------------------------------------------ *)
Lemma option_str_eqb_eq (a b : option string) : option_eqb String.eqb a b = true -> a = b.
Proof.
  destruct a, b; simpl; intro H; try discriminate; [|reflexivity].
  apply String.eqb_eq in H. congruence.
Qed.

Theorem props_kept_or_held o gatts fs f a x :
  In f fs -> prop_of (f_props f) a = Some x ->
  kept_or_held gatts (compute_gl new_code o gatts fs) a x.
Proof.
  intros Hin Hp. unfold kept_or_held.
  destruct (smem a (compute_gl new_code o gatts fs)) eqn:E; [right | left; reflexivity].
  apply smem_In in E. unfold compute_gl in E. destruct fs as [|f0 rest]; [destruct Hin|].
  cbn [fx_global new_code] in E. apply filter_In in E as [E Hg].
  unfold compute_gl0 in E. apply filter_In in E as [_ Hs].
  apply option_str_eqb_eq in Hg.
  destruct (prop_of (f_props f0) a) as [p0|] eqn:E0; [|discriminate].
  destruct Hin as [<- | Hin].
  - congruence.
  - rewrite forallb_forall in Hs. specialize (Hs f Hin). apply option_str_eqb_eq in Hs. congruence.
Qed.

(* what is written on the data variable *)
Lemma filter_keeps (gl : list string) (p : props) a x :
  In (a, x) p -> smem a gl = false -> In (a, x) (filter (fun q => negb (smem (fst q) gl)) p).
Proof. intros H E. apply filter_In. split; [exact H | simpl; rewrite E; reflexivity]. Qed.

(* ------------------------------------------------------------------------ *)
(* 5. Sharing only where equal                                                *)
(* ------------------------------------------------------------------------ *)
Lemma find_seen_sound ig c d s e :
  find_seen ig c d s = Some e ->
  In e (w_seen s) /\ content_eqb ig c (e_c e) = true /\
  match d with Some dd => list_eqb String.eqb dd (e_ncdims e) = true | None => True end.
Proof.
  unfold find_seen. intro H. apply find_some in H as [Hin Hb].
  apply andb_true_iff in Hb as [H1 H2]. repeat split; auto.
  destruct d; auto.
Qed.

Lemma write_var_seen m n d c a r s :
  In {| e_c := c; e_ncvar := n; e_ncdims := d |} (w_seen (write_var m n d c a r s)).
Proof.
  unfold write_var, create_var.
  match goal with |- In ?x (w_seen (if ?b then ?a else _)) =>
    assert (G : In x (w_seen a)) by (simpl; apply in_or_app; right; left; reflexivity);
    destruct b; [exact G|] end.
  destruct (smem _ _); simpl; apply in_or_app; right; left; reflexivity.
Qed.

Theorem aux_shared_only_if_equal m k d s nv s' :
  write_aux m k d s = (nv, s') ->
  (exists e, In e (w_seen s) /\ e_ncvar e = nv /\ content_eqb false (k_c k) (e_c e) = true /\
             list_eqb String.eqb d (e_ncdims e) = true /\ s' = s)
  \/ (find_seen false (k_c k) (Some d) s = None /\
      In {| e_c := k_c k; e_ncvar := nv; e_ncdims := d |} (w_seen s')).
Proof.
  unfold write_aux. destruct (find_seen false (k_c k) (Some d) s) as [e|] eqn:E.
  - intro H. inversion H; subst. left. apply find_seen_sound in E as (A & B & C). exists e. auto.
  - intro H. right. split; [reflexivity|].
    destruct (netcdf_name_m _ _ s) as [n1 s1]. destruct (write_bounds _ _ _ _ _ s1) as [ex s2].
    inversion H; subst. apply write_var_seen.
Qed.

Theorem msr_shared_only_if_equal m k d s nv s' :
  write_msr m k d s = (nv, s') ->
  (exists e, In e (w_seen s) /\ e_ncvar e = nv /\ content_eqb false (k_c k) (e_c e) = true /\
             list_eqb String.eqb d (e_ncdims e) = true /\ s' = s)
  \/ (find_seen false (k_c k) (Some d) s = None /\
      In {| e_c := k_c k; e_ncvar := nv; e_ncdims := d |} (w_seen s')).
Proof.
  unfold write_msr. destruct (find_seen false (k_c k) (Some d) s) as [e|] eqn:E.
  - intro H. inversion H; subst. left. apply find_seen_sound in E as (A & B & C). exists e. auto.
  - intro H. right. split; [reflexivity|].
    destruct (netcdf_name_m _ _ s) as [n1 s1]. inversion H; subst. apply write_var_seen.
Qed.

Theorem anc_shared_only_if_equal m k d df s nv s' :
  write_anc m k d df s = (nv, s') ->
  (exists e, In e (w_seen s) /\ e_ncvar e = nv /\ content_eqb true (k_c k) (e_c e) = true /\
             list_eqb String.eqb d (e_ncdims e) = true /\ s' = s)
  \/ (find_seen true (k_c k) (Some d) s = None /\
      In {| e_c := k_c k; e_ncvar := nv; e_ncdims := d |} (w_seen s')).
Proof.
  unfold write_anc. destruct (find_seen true (k_c k) (Some d) s) as [e|] eqn:E.
  - intro H. inversion H; subst. left. apply find_seen_sound in E as (A & B & C). exists e. auto.
  - intro H. right. split; [reflexivity|].
    destruct (netcdf_name_m _ _ s) as [n1 s1]. destruct (write_bounds _ _ _ _ _ s1) as [ex s2].
    inversion H; subst. apply write_var_seen.
Qed.

Theorem dimcoord_shared_only_if_equal m used ax k c s nv nd s' :
  write_dimcoord m used ax k c s = ((nv, nd), s') ->
  (exists e, In e (w_seen s) /\ e_ncvar e = nv /\ content_eqb false c (e_c e) = true /\ s' = s)
  \/ (nd = nv /\ In {| e_c := c; e_ncvar := nv; e_ncdims := [nv] |} (w_seen s')).
Proof.
  unfold write_dimcoord.
  assert (C : forall base,
    (let '(nv0, s1) := base in
     let '(extra, s3) := write_bounds m k c [nv0] nv0
                          (create_dim m nv0 (a_size ax) (upd_dimsz (cons (nv0, a_size ax)) s1)) in
     (nv0, nv0, write_var m nv0 [nv0] c (c_props c) extra s3)) = (nv, nd, s') ->
    nd = nv /\ In {| e_c := c; e_ncvar := nv; e_ncdims := [nv] |} (w_seen s')).
  { intros [nv0 s1]. destruct (write_bounds _ _ _ _ _ _) as [ex s3]. intro H.
    inversion H; subst. split; [reflexivity | apply write_var_seen]. }
  destruct (find_seen false c None s) as [e|] eqn:E.
  - apply find_seen_sound in E as (A & B & _).
    destruct (e_ncdims e) as [|d0 r].
    + intro H. inversion H; subst. left. exists e. auto.
    + destruct (String.eqb (e_ncvar e) d0 && negb (smem d0 used)) eqn:En.
      * intro H. inversion H; subst. left. exists e. auto.
      * intro H. right. eapply C. exact H.
  - intro H. right. eapply C. exact H.
Qed.

(* ------------------------------------------------------------------------ *)
(* 6. The abstract reader: old data variables and what they are built from   *)
(* ------------------------------------------------------------------------ *)
Lemma lookup_app_some e vv n v :
  lookup_var e n = Some v ->
  find (fun w => String.eqb (v_name w) n) (d_vars e ++ vv) = Some v.
Proof.
  unfold lookup_var. induction (d_vars e) as [|w r IH]; simpl; [discriminate|].
  destruct (String.eqb (v_name w) n); auto.
Qed.

Lemma lookup_app_none e vv n :
  lookup_var e n = None -> ~ In n (map v_name vv) ->
  find (fun w => String.eqb (v_name w) n) (d_vars e ++ vv) = None.
Proof.
  unfold lookup_var. intros H Hn. induction (d_vars e) as [|w r IH]; simpl in *.
  - induction vv as [|w r IH]; simpl in *; [reflexivity|].
    destruct (String.eqb (v_name w) n) eqn:E.
    + apply String.eqb_eq in E. exfalso. apply Hn. left. exact E.
    + apply IH. intro. apply Hn. right. assumption.
  - destruct (String.eqb (v_name w) n); [discriminate | auto].
Qed.

(* names that were looked up without success must stay unresolved *)
Definition stable (fuel : nat) (e : file) (vv : list var) (names : list string) : Prop :=
  forall n, In (n, None) (reach fuel e names) -> ~ In n (map v_name vv).

Lemma reach_frame fuel : forall e e' vv names,
  d_vars e' = d_vars e ++ vv -> stable fuel e vv names ->
  reach fuel e' names = reach fuel e names.
Proof.
  induction fuel as [|k IH]; intros e e' vv names Hv Hs; [reflexivity|].
  simpl. f_equal. apply map_ext_in. intros n Hn.
  destruct (lookup_var e n) as [v|] eqn:E.
  - unfold lookup_var at 1. rewrite Hv, (lookup_app_some _ _ _ _ E). f_equal.
    apply (IH e e' vv); [exact Hv|].
    intros n' Hin. apply Hs. simpl. apply in_concat.
    eexists. split; [apply in_map; exact Hn|]. rewrite E. right. exact Hin.
  - unfold lookup_var at 1. rewrite Hv, lookup_app_none; auto.
    apply Hs. simpl. apply in_concat. eexists. split; [apply in_map; exact Hn|].
    rewrite E. left. reflexivity.
Qed.

Lemma assoc_app_some {A} (l l' : list (string * A)) k v :
  assoc k l = Some v -> assoc k (l ++ l') = Some v.
Proof.
  induction l as [|[k' v'] r IH]; simpl; [discriminate|].
  destruct (String.eqb k k'); auto.
Qed.

Theorem old_fields_frame fuel e e' vv v :
  extends e e' -> d_vars e' = d_vars e ++ vv ->
  In v (data_vars e) ->
  (forall d, In d (v_dims v) -> assoc d (d_dims e) <> None) ->
  stable fuel e vv (ref_names v ++ v_dims v) ->
  (forall w, In w vv -> ~ In (v_name v) (ref_names w)) ->
  In v (data_vars e') /\ view fuel e' v = view fuel e v.
Proof.
  intros (Hd & _ & Hg) Hv Hin Hdims Hst Hnr. split.
  - unfold data_vars in *. apply filter_In in Hin as [Hin Hdv]. apply filter_In. split.
    + rewrite Hv. apply in_or_app. left. exact Hin.
    + unfold is_data_var in *. apply andb_true_iff in Hdv as [H1 H2]. rewrite H2, andb_true_r.
      apply negb_true_iff. apply negb_true_iff in H1.
      destruct (smem (v_name v) (referenced e')) eqn:E; [|reflexivity].
      exfalso. apply smem_In in E. unfold referenced in E. rewrite Hv, map_app, concat_app in E.
      apply in_app_or in E as [E | E].
      * assert (smem (v_name v) (referenced e) = true) by (apply smem_In; exact E). congruence.
      * apply in_concat in E as [l [Hl Hx]]. apply in_map_iff in Hl as [w [<- Hw]].
        exact (Hnr w Hw Hx).
  - unfold view. rewrite Hg. f_equal; [f_equal|].
    + apply map_ext_in. intros d Hdin. destruct Hd as [dd Hd]. rewrite Hd.
      destruct (assoc d (d_dims e)) eqn:E; [|exfalso; exact (Hdims d Hdin E)].
      apply assoc_app_some. exact E.
    + apply (reach_frame fuel e e' vv); assumption.
Qed.

(* ------------------------------------------------------------------------ *)
(* 7. Sequences of appends                                                    *)
(* ------------------------------------------------------------------------ *)
Lemma extends_refl e : extends e e.
Proof. unfold extends. repeat split; try (exists []; symmetry; apply app_nil_r). Qed.

Lemma extends_trans a b c : extends a b -> extends b c -> extends a c.
Proof.
  intros ([d1 H1] & [v1 H2] & H3) ([d2 H4] & [v2 H5] & H6). unfold extends. repeat split.
  - exists (d1 ++ d2). rewrite H4, H1, app_assoc. reflexivity.
  - exists (v1 ++ v2). rewrite H5, H2, app_assoc. reflexivity.
  - congruence.
Qed.

Theorem iterated vr nc4 reread news : forall e, extends e (append_seq vr nc4 reread e news).
Proof.
  induction news as [|n r IH]; intro e; simpl; [apply extends_refl|].
  eapply extends_trans; [apply preserve | apply IH].
Qed.

(* a refused step in the middle of a sequence leaves the file as it was *)
Theorem iterated_refused_step vr nc4 reread e n r :
  refuse vr nc4 (reread e) (snd n) = true ->
  append_seq vr nc4 reread e (n :: r) = append_seq vr nc4 reread e r.
Proof.
  intro H. cbn [append_seq]. destruct (refuse_first vr nc4 (fst n) e (reread e) (snd n) H) as (_ & _ & _ & E).
  rewrite E. reflexivity.
Qed.


(* ------------------------------------------------------------------------ *)
(* 8. formula_terms of an appended field (C17-fix-1), under the exact guard   *)
(* ------------------------------------------------------------------------ *)
Theorem formula_terms_written m f dims x av s r ko ov :
  f_ref f = Some r -> nth_error dims (r_owner r) = Some ko ->
  prop_of (c_props (k_c ko)) "standard_name" = Some (r_sn r) ->
  ft_terms f r ko av s <> [] ->
  lookup_nat (r_owner r) (x_dimvar x) = Some ov ->
  m_dry m = false -> w_err s = false -> fx_formula (m_var m) = true ->
  In ov (w_created s) ->                       (* the owning coordinate variable is new *)
  assoc ov (w_bnds s) <> Some ov ->
  forall v, In v (d_vars (w_file s)) -> v_name v = ov ->
  exists v', In v' (d_vars (w_file (write_formula m f dims x av s))) /\ v_name v' = ov /\
             In ("formula_terms", map fst (ft_terms f r ko av s)) (v_refs v').
Proof.
  intros Hr Hk Hsn Ht Hov Hdry Herr Hfx Hcr Hb v Hv Hname.
  unfold write_formula. rewrite Hr, Hk, Hsn. simpl option_eqb. rewrite String.eqb_refl.
  destruct (ft_terms f r ko av s) as [|t ts] eqn:Et; [congruence|]. rewrite Hov.
  replace (negb (m_post m) || fx_formula (m_var m)) with true by (rewrite Hfx, orb_true_r; reflexivity).
  set (T := t :: ts) in *.
  assert (S1 : exists v1, In v1 (d_vars (w_file (set_created_ref m ov "formula_terms" (map fst T) s))) /\
                          v_name v1 = ov /\ In ("formula_terms", map fst T) (v_refs v1) /\
                          w_err (set_created_ref m ov "formula_terms" (map fst T) s) = false /\
                          m_dry m = false).
  { unfold set_created_ref. rewrite Hdry, Herr. simpl orb.
    assert (E : smem ov (w_created s) = true) by (apply smem_In; exact Hcr). rewrite E. simpl.
    exists (add_ref "formula_terms" (map fst T) v). repeat split; auto.
    - apply in_map_iff. exists v. split; [|exact Hv].
      rewrite Hname, String.eqb_refl. reflexivity.
    - unfold add_ref; simpl. apply in_or_app. right. left. reflexivity. }
  destruct S1 as (v1 & Hin1 & Hn1 & Hr1 & He1 & _).
  destruct (assoc ov (w_bnds s)) as [bv|] eqn:Eb.
  - assert (Hne : bv <> ov) by (intro; subst; apply Hb; reflexivity).
    unfold set_created_ref at 1. rewrite Hdry, He1. simpl orb.
    destruct (smem bv _).
    + simpl. exists v1. repeat split; auto. apply in_map_iff. exists v1. split; [|exact Hin1].
      rewrite Hn1. destruct (String.eqb ov bv) eqn:E; [|reflexivity].
      apply String.eqb_eq in E. congruence.
    + exists v1. auto.
  - exists v1. auto.
Qed.

(* ------------------------------------------------------------------------ *)
(* 9. At least one new variable per appended field                            *)
(* ------------------------------------------------------------------------ *)
Lemma write_field_adds m f s :
  m_dry m = false -> w_err (write_field m f s) = false ->
  (S (nvars s) <= nvars (write_field m f s))%nat.
Proof.
  intros Hdry Herr. revert Herr. unfold write_field. destruct (add_csn f) as [dims bad].
  set (s0 := if bad then set_err s else s).
  assert (H0 : le s s0) by (unfold s0; destruct bad; [apply le_set_err | apply le_refl]).
  pose proof (le_write_axes m f dims (f_axes f) 0
                {| x_a2d := []; x_dimvar := []; x_coords := []; x_span := [] |} s0) as H1.
  destruct (write_axes m f dims 0 (f_axes f) _) as [x s1]. simpl in H1.
  pose proof (le_write_auxs m x (f_aux f) (x_coords x) s1) as H2.
  destruct (write_auxs m x (f_aux f) (x_coords x) s1) as [coords s2]. simpl in H2.
  pose proof (le_write_ancs m f x (f_anc f) 0 [] s2) as H3.
  destruct (write_ancs m f x (f_anc f) 0 [] s2) as [ancvars s3]. simpl in H3.
  pose proof (le_write_msrs m x (f_msr f) [] s3) as H4.
  destruct (write_msrs m x (f_msr f) [] s3) as [msrs s4]. simpl in H4.
  pose proof (le_write_formula m f dims x ancvars s4) as H5.
  with_name.
  assert (L : le s w).
  { eapply le_trans; [exact H0|]. eapply le_trans; [exact H1|]. eapply le_trans; [exact H2|].
    eapply le_trans; [exact H3|]. eapply le_trans; [exact H4|]. eapply le_trans; [exact H5|]. exact Hn. }
  destruct L as (_ & _ & Ln).
  simpl. unfold create_var. rewrite Hdry. simpl orb.
  destruct (w_err w) eqn:Ew; [intro; congruence|].
  destruct (smem _ _); [simpl; intro; discriminate|].
  intros _. unfold nvars in *. simpl. rewrite app_length. simpl. lia.
Qed.

Lemma write_fields_add m fs : forall s,
  m_dry m = false -> w_err (write_fields m fs s) = false ->
  (nvars s + length fs <= nvars (write_fields m fs s))%nat.
Proof.
  unfold write_fields. induction fs as [|f r IH]; intros s Hdry Herr; simpl in *; [lia|].
  assert (E : w_err (write_field m f s) = false).
  { destruct (w_err (write_field m f s)) eqn:E; [|reflexivity].
    pose proof (le_write_fields m r (write_field m f s)) as (_ & Hm & _).
    unfold write_fields in Hm. rewrite (Hm E) in Herr. discriminate. }
  pose proof (write_field_adds m f s Hdry E). specialize (IH _ Hdry Herr). lia.
Qed.

Theorem one_variable_per_field vr nc4 o e orig new :
  snd (append vr nc4 o e orig new) = Done ->
  (length (d_vars e) + length new <= length (d_vars (fst (append vr nc4 o e orig new))))%nat.
Proof.
  unfold append, append_run. cbn [fst snd]. destruct (refuse vr nc4 orig new); [discriminate|].
  set (s1 := dry_run vr e orig).
  pose proof (le_dry_run vr e orig) as L1. fold s1 in L1.
  destruct (w_err s1) eqn:E1; [rewrite E1; discriminate|].
  set (s2 := write_globals (post_mode vr) o new (reopen (log [EOpenA] (register_names vr e s1)))).
  destruct (w_err (log [EClose] (write_fields (post_mode vr) new s2))) eqn:E2; [discriminate|].
  intros _. change (w_err (write_fields (post_mode vr) new s2) = false) in E2.
  pose proof (write_fields_add (post_mode vr) new s2 eq_refl E2) as H.
  assert (L2 : le s1 s2).
  { unfold s2. eapply le_trans; [|apply le_write_globals; reflexivity].
    eapply le_trans; [|apply le_reopen]. eapply le_trans; [apply (le_register_names vr e)|]. le_same. }
  destruct L1 as (_ & _ & Ln). destruct L2 as (_ & _ & Ln2). unfold nvars in *.
  change (d_vars (w_file (log [EClose] (write_fields (post_mode vr) new s2))))
    with (d_vars (w_file (write_fields (post_mode vr) new s2))).
  change (d_vars (w_file (init e))) with (d_vars e) in Ln. lia.
Qed.

(* ------------------------------------------------------------------------ *)
(* 10. _netcdf_name always finds a name that is not in use                    *)
(* ------------------------------------------------------------------------ *)
Definition cand (base : string) (k : nat) : string := (base ++ "_" ++ nat_str k)%string.

Lemma app_inj_l (a x y : string) : (a ++ x = a ++ y)%string -> x = y.
Proof. induction a as [|c a IH]; simpl; intro H; [exact H | injection H; auto]. Qed.

Lemma nat_str_inj i j : nat_str i = nat_str j -> i = j.
Proof.
  unfold nat_str. intro H.
  assert (E : Some (Nat.to_uint i) = Some (Nat.to_uint j)).
  { rewrite <- (NilEmpty.usu (Nat.to_uint i)), <- (NilEmpty.usu (Nat.to_uint j)), H. reflexivity. }
  injection E as E. rewrite <- (Unsigned.of_to i), <- (Unsigned.of_to j), E. reflexivity.
Qed.

Lemma cand_inj base i j : cand base i = cand base j -> i = j.
Proof.
  unfold cand. intro H. apply app_inj_l in H. simpl in H. injection H as H. apply nat_str_inj, H.
Qed.

Lemma first_free_none base ex fuel : forall k,
  first_free base ex k fuel = None -> forall j, (j < fuel)%nat -> In (cand base (k + j)) ex.
Proof.
  induction fuel as [|f IH]; intros k H j Hj; [lia|].
  cbn [first_free] in H. fold (cand base k) in H. destruct (smem (cand base k) ex) eqn:E; [|discriminate].
  destruct j as [|j].
  - rewrite Nat.add_0_r. apply smem_In, E.
  - replace (k + S j)%nat with (S k + j)%nat by lia. apply IH; [exact H | lia].
Qed.

Lemma first_free_some base ex fuel : forall k c,
  first_free base ex k fuel = Some c -> ~ In c ex.
Proof.
  induction fuel as [|f IH]; intros k c H; [discriminate|].
  cbn [first_free] in H. fold (cand base k) in H. destruct (smem (cand base k) ex) eqn:E.
  - eapply IH, H.
  - injection H as <-. apply smem_false, E.
Qed.

Lemma first_free_total base ex k : first_free base ex k (S (length ex)) <> None.
Proof.
  intro H. pose proof (first_free_none base ex _ k H) as Hall.
  set (l := map (fun j => cand base (k + j)) (seq 0 (S (length ex)))).
  assert (Hnd : NoDup l).
  { apply Injective_map_NoDup; [|apply seq_NoDup].
    intros i j E. apply cand_inj in E. lia. }
  assert (Hincl : incl l ex).
  { intros x Hx. apply in_map_iff in Hx as [j [<- Hj]]. apply in_seq in Hj. apply Hall. lia. }
  pose proof (NoDup_incl_length Hnd Hincl) as Hlen. unfold l in Hlen. rewrite map_length, seq_length in Hlen. lia.
Qed.

(* the name returned is not in use (neither a variable nor a dimension),
   nothing else changes, and no error is raised *)
Theorem netcdf_name_fresh base s :
  exists n, netcdf_name base s = (n, upd_names (cons n) s) /\ ~ In n (existing s).
Proof.
  unfold netcdf_name. destruct (smem base (existing s)) eqn:E.
  - destruct (first_free base (existing s) 1 (S (length (existing s)))) as [n|] eqn:F.
    + exists n. split; [reflexivity | eapply first_free_some, F].
    + exfalso. eapply first_free_total, F.
  - exists base. split; [reflexivity | apply smem_false, E].
Qed.


(* ------------------------------------------------------------------------ *)
(* 12. The dry run does not touch the file                                    *)
(* ------------------------------------------------------------------------ *)
Definition sm (s s' : wst) : Prop := w_file s' = w_file s.
Lemma sm_refl s : sm s s. Proof. reflexivity. Qed.
Lemma sm_trans s1 s2 s3 : sm s1 s2 -> sm s2 s3 -> sm s1 s3.
Proof. unfold sm. intros A B. rewrite B, A. reflexivity. Qed.
Ltac sm_same := reflexivity.

Section DryRun.
Variable m : mode.
Hypothesis Hdry : m_dry m = true.

Lemma sm_create_dim n z s : sm s (create_dim m n z s).
Proof. unfold create_dim. rewrite Hdry. reflexivity. Qed.
Lemma sm_create_var v s : sm s (create_var m v s).
Proof. unfold create_var. rewrite Hdry. reflexivity. Qed.
Lemma sm_set_created_ref n a l s : sm s (set_created_ref m n a l s).
Proof. unfold set_created_ref. rewrite Hdry. reflexivity. Qed.

Lemma sm_set_err s : sm s (set_err s).
Proof. sm_same. Qed.







Lemma sm_netcdf_name b s : sm s (snd (netcdf_name b s)).
Proof.
  unfold netcdf_name. destruct (smem b (existing s)).
  - destruct (first_free _ _ _ _); simpl; [sm_same | apply sm_set_err].
  - simpl. sm_same.
Qed.

Lemma sm_netcdf_name_m mm b s : sm s (snd (netcdf_name_m mm b s)).
Proof.
  unfold netcdf_name_m. destruct (m_dry mm && fx_norename (m_var mm)); [simpl; sm_same | apply sm_netcdf_name].
Qed.

Lemma sm_write_var n dims c attrs refs s : sm s (write_var m n dims c attrs refs s).
Proof.
  unfold write_var. eapply sm_trans; [|apply sm_create_var]. sm_same.
Qed.

Lemma sm_write_bounds k c cd cv s : sm s (snd (write_bounds m k c cd cv s)).
Proof.
  unfold write_bounds. destruct (c_bnd c) as [b|]; [|apply sm_refl].
  set (size := last (b_shape b) 0%Z).
  destruct (find _ (w_bdims s)) as [d|].
  - (* existing bounds dimension *)
    destruct (find_seen _ _ _ s) as [e0|]; simpl; [sm_same|].
    match goal with |- context [netcdf_name_m ?mm ?b ?s0] => pose proof (sm_netcdf_name_m mm b s0) as Hn;
      destruct (netcdf_name_m mm b s0) as [bv s3] eqn:En end. simpl in *.
    eapply sm_trans; [|sm_same].
    eapply sm_trans; [|apply sm_write_var].
    eapply sm_trans; [|exact Hn].
    destruct (negb _); [|apply sm_refl].
    eapply sm_trans; [|apply sm_create_dim]. sm_same.
  - match goal with |- context [netcdf_name_m ?mm ?b ?s0] => pose proof (sm_netcdf_name_m mm b s0) as Hn0;
      destruct (netcdf_name_m mm b s0) as [n0 s0'] eqn:En0 end. simpl in Hn0.
    destruct (find_seen _ _ _ _) as [e0|]; simpl.
    + eapply sm_trans; [exact Hn0|]. eapply sm_trans; [|sm_same]. sm_same.
    + match goal with |- context [netcdf_name_m ?mm ?b ?s0] => pose proof (sm_netcdf_name_m mm b s0) as Hn;
        destruct (netcdf_name_m mm b s0) as [bv s3] eqn:En end. simpl in *.
      eapply sm_trans; [|sm_same].
      eapply sm_trans; [|apply sm_write_var].
      eapply sm_trans; [|exact Hn].
      eapply sm_trans; [exact Hn0|].
      eapply sm_trans; [|]. 2:{ destruct (negb _); [|apply sm_refl].
                                 eapply sm_trans; [|apply sm_create_dim]. sm_same. }
      sm_same.
Qed.

Ltac with_name_sm :=
  match goal with |- context [netcdf_name_m ?mm ?b ?s0] =>
    let H := fresh "Hn" in let E := fresh "En" in
    pose proof (sm_netcdf_name_m mm b s0) as H; destruct (netcdf_name_m mm b s0) eqn:E; simpl in H end.

Ltac with_bounds_sm :=
  match goal with |- context [write_bounds ?m ?k ?c ?cd ?cv ?s0] =>
    let H := fresh "Hb" in let E := fresh "Eb" in
    pose proof (sm_write_bounds k c cd cv s0) as H; destruct (write_bounds m k c cd cv s0) eqn:E; simpl in H end.

Lemma sm_dimcoord_name ax k c s : sm s (snd (dimcoord_name m ax k c s)).
Proof.
  unfold dimcoord_name. destruct (fx_dimname (m_var m)).
  - destruct (a_ncdim ax); destruct (k_ncvar k); try destruct (name_of k c None); apply sm_netcdf_name_m.
  - destruct (name_of k c None); [apply sm_netcdf_name_m|].
    destruct (a_ncdim ax); [apply sm_refl | apply sm_netcdf_name_m].
Qed.

Lemma sm_write_dimcoord used ax k c s : sm s (snd (write_dimcoord m used ax k c s)).
Proof.
  unfold write_dimcoord.
  destruct (match find_seen false c None s with Some e => _ | None => None end) as [r|];
    [simpl; apply sm_refl|].
  pose proof (sm_dimcoord_name ax k c s) as Hn.
  destruct (dimcoord_name m ax k c s) as [nv s1]. simpl in Hn. with_bounds_sm. simpl.
  eapply sm_trans; [exact Hn|]. eapply sm_trans; [|apply sm_write_var].
  eapply sm_trans; [|exact Hb]. eapply sm_trans; [|apply sm_create_dim]. sm_same.
Qed.

Lemma sm_write_scalar k c s : sm s (snd (write_scalar m k c s)).
Proof.
  unfold write_scalar. destruct (find_seen _ _ _ s); [simpl; apply sm_refl|].
  with_name_sm. with_bounds_sm. simpl.
  eapply sm_trans; [exact Hn|]. eapply sm_trans; [|apply sm_write_var]. exact Hb.
Qed.

Lemma sm_write_aux k d s : sm s (snd (write_aux m k d s)).
Proof.
  unfold write_aux. destruct (find_seen _ _ _ s); [simpl; apply sm_refl|].
  with_name_sm. with_bounds_sm. simpl.
  eapply sm_trans; [exact Hn|]. eapply sm_trans; [|apply sm_write_var]. exact Hb.
Qed.

Lemma sm_write_anc k d df s : sm s (snd (write_anc m k d df s)).
Proof.
  unfold write_anc. destruct (find_seen _ _ _ s); [simpl; apply sm_refl|].
  with_name_sm. with_bounds_sm. simpl.
  eapply sm_trans; [exact Hn|]. eapply sm_trans; [|apply sm_write_var]. exact Hb.
Qed.

Lemma sm_write_msr k d s : sm s (snd (write_msr m k d s)).
Proof.
  unfold write_msr. destruct (find_seen _ _ _ s); [simpl; apply sm_refl|].
  with_name_sm. simpl. eapply sm_trans; [exact Hn|]. apply sm_write_var.
Qed.

Lemma sm_write_axis f dims i ax x s : sm s (snd (write_axis m f dims i ax (x, s))).
Proof.
  unfold write_axis. destruct (dim_for i dims 0) as [[p k]|].
  - destruct (nmem i (f_daxes f)).
    + pose proof (sm_write_dimcoord (map snd (x_a2d x)) ax k (k_c k) s) as H.
      destruct (write_dimcoord m (map snd (x_a2d x)) ax k (k_c k) s) as [[nv nd] s1]. exact H.
    + pose proof (sm_write_scalar k (k_c k) s) as H.
      destruct (write_scalar m k (k_c k) s) as [nv s1]. exact H.
  - destruct (nmem i (f_daxes f)); [|apply sm_refl].
    destruct (pick_dim m f i ax x s);
      [simpl; apply sm_refl|].
    with_name_sm. simpl. eapply sm_trans; [exact Hn|].
    eapply sm_trans; [|apply sm_create_dim]. sm_same.
Qed.

Lemma sm_write_axes f dims axs : forall i x s, sm s (snd (write_axes m f dims i axs (x, s))).
Proof.
  induction axs as [|ax r IH]; intros i x s; cbn [write_axes snd]; [apply sm_refl|].
  pose proof (sm_write_axis f dims i ax x s) as H.
  destruct (write_axis m f dims i ax (x, s)) as [x1 s1]. simpl in H.
  eapply sm_trans; [exact H | apply IH].
Qed.

Lemma sm_write_auxs x l : forall acc s, sm s (snd (write_auxs m x l acc s)).
Proof.
  induction l as [|k r IH]; intros acc s; cbn [write_auxs snd]; [apply sm_refl|].
  pose proof (sm_write_aux k (dims_of x (k_axes k)) s) as H.
  destruct (write_aux m k (dims_of x (k_axes k)) s) as [nv s1]. simpl in H.
  eapply sm_trans; [exact H | apply IH].
Qed.

Lemma sm_write_ancs f x l : forall p acc s, sm s (snd (write_ancs m f x l p acc s)).
Proof.
  induction l as [|k r IH]; intros p acc s; cbn [write_ancs snd]; [apply sm_refl|].
  pose proof (sm_write_anc k (dims_of x (k_axes k)) (anc_default f p) s) as H.
  destruct (write_anc m k (dims_of x (k_axes k)) (anc_default f p) s) as [nv s1]. simpl in H.
  eapply sm_trans; [exact H | apply IH].
Qed.

Lemma sm_write_msrs x l : forall acc s, sm s (snd (write_msrs m x l acc s)).
Proof.
  induction l as [|k r IH]; intros acc s; cbn [write_msrs snd]; [apply sm_refl|].
  pose proof (sm_write_msr k (dims_of x (k_axes k)) s) as H.
  destruct (write_msr m k (dims_of x (k_axes k)) s) as [nv s1]. simpl in H.
  eapply sm_trans; [exact H | apply IH].
Qed.

Lemma sm_write_formula f dims x av s : sm s (write_formula m f dims x av s).
Proof.
  unfold write_formula. destruct (f_ref f) as [r|]; [|apply sm_refl].
  destruct (nth_error dims (r_owner r)) as [ko|]; [|apply sm_refl].
  destruct (option_eqb _ _ _); [|apply sm_refl].
  destruct (ft_terms _ _ _ _ _) as [|t ts]; [apply sm_refl|].
  destruct (lookup_nat _ _) as [ov|]; [|apply sm_refl].
  destruct (negb (m_post m) || fx_formula (m_var m)).
  - destruct (assoc ov (w_bnds s)).
    + eapply sm_trans; apply sm_set_created_ref.
    + apply sm_set_created_ref.
  - destruct (assoc ov (w_bnds s)); apply sm_refl.
Qed.

Lemma sm_write_field f s : sm s (write_field m f s).
Proof.
  unfold write_field. destruct (add_csn f) as [dims bad].
  set (s0 := if bad then set_err s else s).
  assert (H0 : sm s s0) by (unfold s0; destruct bad; [apply sm_set_err | apply sm_refl]).
  pose proof (sm_write_axes f dims (f_axes f) 0
                {| x_a2d := []; x_dimvar := []; x_coords := []; x_span := [] |} s0) as H1.
  destruct (write_axes m f dims 0 (f_axes f) _) as [x s1]. simpl in H1.
  pose proof (sm_write_auxs x (f_aux f) (x_coords x) s1) as H2.
  destruct (write_auxs m x (f_aux f) (x_coords x) s1) as [coords s2]. simpl in H2.
  pose proof (sm_write_ancs f x (f_anc f) 0 [] s2) as H3.
  destruct (write_ancs m f x (f_anc f) 0 [] s2) as [ancvars s3]. simpl in H3.
  pose proof (sm_write_msrs x (f_msr f) [] s3) as H4.
  destruct (write_msrs m x (f_msr f) [] s3) as [msrs s4]. simpl in H4.
  pose proof (sm_write_formula f dims x ancvars s4) as H5.
  with_name_sm.
  eapply sm_trans; [exact H0|]. eapply sm_trans; [exact H1|]. eapply sm_trans; [exact H2|].
  eapply sm_trans; [exact H3|]. eapply sm_trans; [exact H4|]. eapply sm_trans; [exact H5|].
  eapply sm_trans; [exact Hn|]. eapply sm_trans; [apply sm_create_var|]. sm_same.
Qed.

Lemma sm_write_fields fs : forall s, sm s (write_fields m fs s).
Proof.
  unfold write_fields. induction fs as [|f r IH]; intro s; simpl; [apply sm_refl|].
  eapply sm_trans; [apply sm_write_field | apply IH].
Qed.


End DryRun.

(* ------------------------------------------------------------------------ *)
(* 11. The old fields are still read: an invariant of the appending pass     *)
(* ------------------------------------------------------------------------ *)
Definition rnames (refs : list (string * list (string * string))) : list string :=
  concat (map (fun r => map snd (snd r)) refs).

(* relative to the file E: every name of E is in use; no registered
   construct or bounds variable bears the name of a data variable of E; the
   variables created so far are not variables of E; the file is E plus
   variables whose names are not names of E and which refer to no data
   variable of E *)
Record Inv (NN DD : list string) (e : file) (s : wst) : Prop := {
  i_dn : forall n, In n DD -> In n NN;
  i_vn : forall n, In n (map v_name (d_vars e)) -> In n NN;
  i_names : forall n, In n NN -> In n (existing s);
  i_seen : forall en, In en (w_seen s) -> ~ In (e_ncvar en) DD;
  i_bnds : forall p, In p (w_bnds s) -> ~ In (snd p) DD;
  i_created : forall n, In n (w_created s) -> ~ In n (map v_name (d_vars e));
  i_file : exists vv, d_vars (w_file s) = d_vars e ++ vv /\
           forall w, In w vv -> ~ In (v_name w) NN /\
                                forall n, In n (ref_names w) -> ~ In n DD }.





Lemma inv_same NN DD e s s' :
  w_names s' = w_names s -> w_dimsz s' = w_dimsz s -> w_seen s' = w_seen s -> w_bnds s' = w_bnds s ->
  w_created s' = w_created s -> w_file s' = w_file s -> Inv NN DD e s -> Inv NN DD e s'.
Proof.
  intros A B C D E F [Hdn Hvn H1 H2 H3 H4 H5].
  constructor; unfold existing in *; rewrite ?A, ?B, ?C, ?D, ?E, ?F; auto.
Qed.
Ltac inv_same := apply inv_same; reflexivity.

Lemma inv_upd_names NN DD e n s : Inv NN DD e s -> Inv NN DD e (upd_names (cons n) s).
Proof.
  intros [Hdn Hvn H1 H2 H3 H4 H5]. constructor; auto.
  intros x Hx. specialize (H1 x Hx). unfold existing in *. simpl. right. exact H1.
Qed.

Lemma inv_upd_dimsz NN DD e p s : Inv NN DD e s -> Inv NN DD e (upd_dimsz (cons p) s).
Proof.
  intros [Hdn Hvn H1 H2 H3 H4 H5]. constructor; auto.
  intros x Hx. specialize (H1 x Hx). unfold existing in *. simpl.
  apply in_app_or in H1 as [H1 | H1]; apply in_or_app; [left | right; right]; exact H1.
Qed.

Lemma inv_upd_seen NN DD e en s :
  ~ In (e_ncvar en) DD -> Inv NN DD e s -> Inv NN DD e (upd_seen (fun l => l ++ [en]) s).
Proof.
  intros Hn [Hdn Hvn H1 H2 H3 H4 H5]. constructor; auto.
  intros x Hx. simpl in Hx. apply in_app_or in Hx as [Hx | [<- | []]]; auto.
Qed.

Lemma inv_upd_bnds NN DD e p s : ~ In (snd p) DD -> Inv NN DD e s -> Inv NN DD e (upd_bnds (cons p) s).
Proof.
  intros Hn [Hdn Hvn H1 H2 H3 H4 H5]. constructor; auto.
  intros x [<- | Hx]; auto.
Qed.

Lemma inv_upd_bdims NN DD e f s : Inv NN DD e s -> Inv NN DD e (upd_bdims f s).
Proof. inv_same. Qed.
Lemma inv_upd_span NN DD e f s : Inv NN DD e s -> Inv NN DD e (upd_span f s).
Proof. inv_same. Qed.
Lemma inv_set_err NN DD e s : Inv NN DD e s -> Inv NN DD e (set_err s).
Proof. inv_same. Qed.
Lemma inv_log NN DD e ev s : Inv NN DD e s -> Inv NN DD e (log ev s).
Proof. inv_same. Qed.
Lemma inv_set_gl NN DD e gl s : Inv NN DD e s -> Inv NN DD e (set_gl gl s).
Proof. inv_same. Qed.
Lemma inv_reopen NN DD e s : Inv NN DD e s -> Inv NN DD e (reopen s).
Proof. intros [Hdn Hvn H1 H2 H3 H4 H5]. constructor; auto; try (intros n []). Qed.

Lemma inv_create_dim NN DD e vr n z s : Inv NN DD e s -> Inv NN DD e (create_dim (post_mode vr) n z s).
Proof.
  intro H. unfold create_dim. destruct (m_dry (post_mode vr) || w_err s); [exact H|].
  destruct (smem n _); [apply inv_set_err, H|].
  destruct H as [Hdn Hvn H1 H2 H3 H4 H5]. constructor; auto.
Qed.

Lemma inv_create_var NN DD e vr v s :
  ~ In (v_name v) NN -> (forall n, In n (ref_names v) -> ~ In n DD) ->
  Inv NN DD e s -> Inv NN DD e (create_var (post_mode vr) v s).
Proof.
  intros Hn Hr H. unfold create_var. destruct (m_dry (post_mode vr) || w_err s); [exact H|].
  destruct (smem (v_name v) _); [apply inv_set_err, H|].
  destruct H as [Hdn Hvn H1 H2 H3 H4 H5]. constructor; auto.
  - intros x [<- | Hx]; [|auto]. intro Hin. apply Hn, Hvn, Hin.
  - destruct H5 as [vv [Hv Hall]]. exists (vv ++ [v]). simpl. split.
    + rewrite Hv, app_assoc. reflexivity.
    + intros w Hw. apply in_app_or in Hw as [Hw | [<- | []]]; auto.
Qed.

Lemma ref_names_add_ref a l w x :
  In x (ref_names (add_ref a l w)) -> In x (ref_names w) \/ In x (map snd l).
Proof.
  unfold ref_names, add_ref. simpl. rewrite map_app, concat_app. intro H.
  apply in_app_or in H as [H | H].
  - left. apply in_concat in H as [y [Hy Hx]]. apply in_map_iff in Hy as [r [<- Hr]].
    apply filter_In in Hr as [Hr _]. apply in_concat. eexists. split; [apply in_map, Hr | exact Hx].
  - right. simpl in H. rewrite app_nil_r in H. exact H.
Qed.

Lemma inv_set_created_ref NN DD e vr n a l s :
  (forall x, In x (map snd l) -> ~ In x DD) -> Inv NN DD e s -> Inv NN DD e (set_created_ref (post_mode vr) n a l s).
Proof.
  intros Hl H. unfold set_created_ref. destruct (m_dry (post_mode vr) || w_err s); [exact H|].
  destruct (smem n (w_created s)) eqn:E; [|exact H].
  destruct H as [Hdn Hvn H1 H2 H3 H4 H5]. constructor; auto.
  destruct H5 as [vv [Hv Hall]].
  set (g := fun v => if String.eqb (v_name v) n then add_ref a l v else v).
  exists (map g vv). simpl. split.
  - rewrite Hv, map_app. f_equal.
    rewrite <- (map_id (d_vars e)) at 2. apply map_ext_in.
    intros v Hin. unfold g. destruct (String.eqb (v_name v) n) eqn:En; [|reflexivity].
    apply String.eqb_eq in En. exfalso. apply smem_In in E. apply (H4 n E).
    rewrite <- En. apply in_map. exact Hin.
  - intros w Hw. apply in_map_iff in Hw as [w0 [<- Hw0]]. destruct (Hall w0 Hw0) as [Ha Hb].
    unfold g. destruct (String.eqb (v_name w0) n); [|split; assumption].
    split; [exact Ha|]. intros x Hx. apply ref_names_add_ref in Hx as [Hx | Hx]; auto.
Qed.

Lemma inv_netcdf_name NN DD e b s :
  Inv NN DD e s -> Inv NN DD e (snd (netcdf_name b s)) /\ ~ In (fst (netcdf_name b s)) NN.
Proof.
  intro H. destruct (netcdf_name_fresh b s) as [n [-> Hn]]. simpl. split.
  - apply inv_upd_names, H.
  - intro Hin. apply Hn. apply (i_names _ _ _ _ H), Hin.
Qed.

(* in the appending pass names are always made unique *)
Lemma netcdf_name_m_post vr b s : netcdf_name_m (post_mode vr) b s = netcdf_name b s.
Proof. reflexivity. Qed.

Lemma inv_find_seen NN DD e ig c d s en :
  Inv NN DD e s -> find_seen ig c d s = Some en -> ~ In (e_ncvar en) DD.
Proof. intros H F. apply find_seen_sound in F as [F _]. apply (i_seen _ _ _ _ H), F. Qed.

Lemma inv_write_var NN DD e vr n dims c attrs refs s :
  ~ In n NN -> (forall x, In x (rnames refs) -> ~ In x DD) ->
  Inv NN DD e s -> Inv NN DD e (write_var (post_mode vr) n dims c attrs refs s).
Proof.
  intros Hn Hr H. unfold write_var. apply inv_create_var; [exact Hn | exact Hr |].
  apply inv_upd_seen; [|exact H]. simpl. intro Hin. apply Hn, (i_dn _ _ _ _ H), Hin.
Qed.

Ltac inv_name H :=
  rewrite ?netcdf_name_m_post;
  match goal with |- context [netcdf_name ?b ?s0] =>
    let Hi := fresh "Hi" in let Hf := fresh "Hf" in let n := fresh "n" in let s1 := fresh "s" in
    destruct (inv_netcdf_name _ _ _ b s0 H) as [Hi Hf]; destruct (netcdf_name b s0) as [n s1];
    cbn [fst snd] in Hi, Hf end.

(* _write_bounds, after the bounds dimension has been chosen *)
Definition wb_tail (m : mode) (k : cst) (c : content) (cdims : list string) (cvar : string) (b : bcontent)
           (bdim : string) (s1 : wst) : list (string * list (string * string)) * wst :=
  let size := last (b_shape b) 0%Z in
  let nd := cdims ++ [bdim] in
  let bc := bnd_content b in
  match find_seen false bc (Some nd) s1 with
  | Some e => ([("bounds", [("", e_ncvar e)])], upd_bnds (cons (cvar, e_ncvar e)) s1)
  | None =>
    let isnew := negb (smem bdim (map fst (w_dimsz s1))) in
    let s2 := if isnew then create_dim m bdim size (upd_dimsz (cons (bdim, size)) s1) else s1 in
    let default := if isnew then (cvar ++ "_bounds")%string else "bounds" in
    let '(bv, s3) := netcdf_name_m m (match k_bvar k with Some n => n | None => default end) s2 in
    let attrs := filter (fun p => negb (smem (fst p) c17_omit_bounds_props &&
                                        option_eqb String.eqb (prop_of (c_props c) (fst p)) (Some (snd p))))
                        (b_props b) in
    let s4 := write_var m bv nd bc attrs [] s3 in
    ([("bounds", [("", bv)])], upd_bnds (cons (cvar, bv)) s4)
  end.

Lemma write_bounds_tail m k c cd cv s :
  write_bounds m k c cd cv s =
  match c_bnd c with
  | None => ([], s)
  | Some b =>
    let size := last (b_shape b) 0%Z in
    let base := match k_bdim k with Some d => d | None => ("bounds" ++ nat_str (Z.to_nat size))%string end in
    match find (fun d => match k_bdim k with Some n => String.eqb d n | None => true end &&
                         option_eqb Z.eqb (dim_size s d) (Some size)) (w_bdims s) with
    | Some d => wb_tail m k c cd cv b d s
    | None => wb_tail m k c cd cv b (fst (netcdf_name_m m base s)) (upd_bdims (fun l => l ++ [fst (netcdf_name_m m base s)]) (snd (netcdf_name_m m base s)))
    end
  end.
Proof.
  unfold write_bounds. destruct (c_bnd c) as [b|]; [|reflexivity].
  cbv zeta. destruct (find _ (w_bdims s)); [reflexivity|].
  destruct (netcdf_name_m _ _ s). reflexivity.
Qed.

Definition refs_ok (DD : list string) (refs : list (string * list (string * string))) : Prop :=
  forall x, In x (rnames refs) -> ~ In x DD.

Lemma inv_wb_tail NN DD e vr k c cd cv b bdim s :
  Inv NN DD e s -> Inv NN DD e (snd (wb_tail (post_mode vr) k c cd cv b bdim s)) /\ refs_ok DD (fst (wb_tail (post_mode vr) k c cd cv b bdim s)).
Proof.
  intro H. unfold wb_tail. cbv zeta.
  destruct (find_seen false (bnd_content b) (Some (cd ++ [bdim])) s) as [en|] eqn:F.
  - pose proof (inv_find_seen _ _ _ _ _ _ _ _ H F) as Hn. simpl. split.
    + apply inv_upd_bnds; [exact Hn | exact H].
    + intros x [<- | []]. exact Hn.
  - set (s2 := if negb (smem bdim (map fst (w_dimsz s))) then _ else s).
    assert (H2 : Inv NN DD e s2).
    { unfold s2. destruct (negb _); [|exact H]. apply inv_create_dim, inv_upd_dimsz, H. }
    inv_name H2. simpl. split.
    + apply inv_upd_bnds; [simpl; intro Hin; apply Hf, (i_dn _ _ _ _ H), Hin|].
      apply inv_write_var; [exact Hf | intros x [] | exact Hi].
    + intros x [<- | []]. intro Hin. apply Hf, (i_dn _ _ _ _ H), Hin.
Qed.

Lemma inv_write_bounds NN DD e vr k c cd cv s :
  Inv NN DD e s -> Inv NN DD e (snd (write_bounds (post_mode vr) k c cd cv s)) /\ refs_ok DD (fst (write_bounds (post_mode vr) k c cd cv s)).
Proof.
  intro H. rewrite write_bounds_tail. destruct (c_bnd c) as [b|]; [|simpl; split; [exact H | intros x []]].
  cbv zeta. destruct (find _ (w_bdims s)).
  - apply inv_wb_tail, H.
  - apply inv_wb_tail, inv_upd_bdims. apply (inv_netcdf_name NN DD e _ s H).
Qed.

Ltac inv_bounds H :=
  match goal with |- context [write_bounds (post_mode ?v) ?k ?c ?cd ?cv ?s0] =>
    let Hi := fresh "Hbi" in let Hr := fresh "Hbr" in let ex := fresh "ex" in let s1 := fresh "s" in
    destruct (inv_write_bounds _ _ _ v k c cd cv s0 H) as [Hi Hr]; destruct (write_bounds (post_mode v) k c cd cv s0) as [ex s1];
    cbn [fst snd] in Hi, Hr end.

Definition name_ok (DD : list string) (n : string) : Prop := ~ In n DD.

Lemma fresh_ok NN DD n : (forall x, In x DD -> In x NN) -> ~ In n NN -> name_ok DD n.
Proof. intros HD H Hin. apply H, HD, Hin. Qed.

(* every construct writer: the invariant is kept and the variable returned
   is not a data variable of E *)
Lemma inv_write_dimcoord NN DD e vr used ax k c s :
  fx_dimname (m_var (post_mode vr)) = true -> Inv NN DD e s ->
  Inv NN DD e (snd (write_dimcoord (post_mode vr) used ax k c s)) /\ name_ok DD (fst (fst (write_dimcoord (post_mode vr) used ax k c s))).
Proof.
  intros Hfx H. unfold write_dimcoord.
  assert (C : forall en, find_seen false c None s = Some en -> name_ok DD (e_ncvar en))
    by (intros en F; eapply inv_find_seen; eassumption).
  assert (N : let '(nv, s1) := dimcoord_name (post_mode vr) ax k c s in Inv NN DD e s1 /\ ~ In nv NN).
  { unfold dimcoord_name. rewrite Hfx.
    destruct (a_ncdim ax); destruct (k_ncvar k); try destruct (name_of k c None);
      rewrite ?netcdf_name_m_post;
      match goal with |- context [netcdf_name ?b s] =>
        pose proof (inv_netcdf_name NN DD e b s H) as X; destruct (netcdf_name b s); exact X end. }
  assert (G : let '(nv, s1) := dimcoord_name (post_mode vr) ax k c s in
              let s2 := create_dim (post_mode vr) nv (a_size ax) (upd_dimsz (cons (nv, a_size ax)) s1) in
              let '(extra, s3) := write_bounds (post_mode vr) k c [nv] nv s2 in
              Inv NN DD e (write_var (post_mode vr) nv [nv] c (c_props c) extra s3) /\ name_ok DD nv).
  { destruct (dimcoord_name (post_mode vr) ax k c s) as [nv s1]. destruct N as [N1 N2]. cbv zeta.
    assert (H2 : Inv NN DD e (create_dim (post_mode vr) nv (a_size ax) (upd_dimsz (cons (nv, a_size ax)) s1)))
      by (apply inv_create_dim, inv_upd_dimsz, N1).
    inv_bounds H2. split; [|apply (fresh_ok NN DD _ (i_dn _ _ _ _ H)), N2].
    apply inv_write_var; assumption. }
  destruct (find_seen false c None s) as [en|] eqn:F.
  - specialize (C en eq_refl). destruct (e_ncdims en) as [|d0 r].
    + simpl. auto.
    + destruct (String.eqb (e_ncvar en) d0 && negb (smem d0 used)); [simpl; auto|].
      destruct (dimcoord_name (post_mode vr) ax k c s) as [nv s1]. cbv zeta in G.
      destruct (write_bounds _ _ _ _ _ _). exact G.
  - destruct (dimcoord_name (post_mode vr) ax k c s) as [nv s1]. cbv zeta in G.
    destruct (write_bounds _ _ _ _ _ _). exact G.
Qed.

Lemma inv_write_scalar NN DD e vr k c s :
  Inv NN DD e s -> Inv NN DD e (snd (write_scalar (post_mode vr) k c s)) /\ name_ok DD (fst (write_scalar (post_mode vr) k c s)).
Proof.
  intro H. unfold write_scalar. destruct (find_seen _ _ _ s) as [en|] eqn:F.
  - simpl. split; [exact H | eapply inv_find_seen; eassumption].
  - inv_name H. inv_bounds Hi. simpl. split; [|apply (fresh_ok NN DD _ (i_dn _ _ _ _ H)), Hf].
    apply inv_write_var; assumption.
Qed.

Lemma inv_write_aux NN DD e vr k d s :
  Inv NN DD e s -> Inv NN DD e (snd (write_aux (post_mode vr) k d s)) /\ name_ok DD (fst (write_aux (post_mode vr) k d s)).
Proof.
  intro H. unfold write_aux. destruct (find_seen _ _ _ s) as [en|] eqn:F.
  - simpl. split; [exact H | eapply inv_find_seen; eassumption].
  - inv_name H. inv_bounds Hi. simpl. split; [|apply (fresh_ok NN DD _ (i_dn _ _ _ _ H)), Hf].
    apply inv_write_var; assumption.
Qed.

Lemma inv_write_anc NN DD e vr k d df s :
  Inv NN DD e s -> Inv NN DD e (snd (write_anc (post_mode vr) k d df s)) /\ name_ok DD (fst (write_anc (post_mode vr) k d df s)).
Proof.
  intro H. unfold write_anc. destruct (find_seen _ _ _ s) as [en|] eqn:F.
  - simpl. split; [exact H | eapply inv_find_seen; eassumption].
  - inv_name H. inv_bounds Hi. simpl. split; [|apply (fresh_ok NN DD _ (i_dn _ _ _ _ H)), Hf].
    apply inv_write_var; assumption.
Qed.

Lemma inv_write_msr NN DD e vr k d s :
  Inv NN DD e s -> Inv NN DD e (snd (write_msr (post_mode vr) k d s)) /\ name_ok DD (fst (write_msr (post_mode vr) k d s)).
Proof.
  intro H. unfold write_msr. destruct (find_seen _ _ _ s) as [en|] eqn:F.
  - simpl. split; [exact H | eapply inv_find_seen; eassumption].
  - inv_name H. simpl. split; [|apply (fresh_ok NN DD _ (i_dn _ _ _ _ H)), Hf].
    apply inv_write_var; [exact Hf | intros x [] | exact Hi].
Qed.

Definition names_ok (DD : list string) (l : list string) : Prop := forall n, In n l -> name_ok DD n.

Lemma inv_write_axis NN DD e vr f dims i ax x s :
  fx_dimname (m_var (post_mode vr)) = true -> Inv NN DD e s -> names_ok DD (x_coords x) ->
  Inv NN DD e (snd (write_axis (post_mode vr) f dims i ax (x, s))) /\ names_ok DD (x_coords (fst (write_axis (post_mode vr) f dims i ax (x, s)))).
Proof.
  intros Hfx H Hx. unfold write_axis. destruct (dim_for i dims 0) as [[p k]|].
  - destruct (nmem i (f_daxes f)).
    + destruct (inv_write_dimcoord NN DD e vr (map snd (x_a2d x)) ax k (k_c k) s Hfx H) as [A _].
      destruct (write_dimcoord (post_mode vr) (map snd (x_a2d x)) ax k (k_c k) s) as [[nv nd] s1]. simpl in *. auto.
    + destruct (inv_write_scalar NN DD e vr k (k_c k) s H) as [A B].
      destruct (write_scalar (post_mode vr) k (k_c k) s) as [nv s1]. simpl in *. split; [exact A|].
      intros n Hn. apply in_app_or in Hn as [Hn | [<- | []]]; auto.
  - destruct (nmem i (f_daxes f)); [|simpl; auto].
    destruct (pick_dim (post_mode vr) f i ax x s); [simpl; auto|].
    inv_name H. simpl. split; [|exact Hx]. apply inv_create_dim, inv_upd_dimsz, Hi.
Qed.

Lemma inv_write_axes NN DD e vr f dims axs : forall i x s,
  fx_dimname (m_var (post_mode vr)) = true -> Inv NN DD e s -> names_ok DD (x_coords x) ->
  Inv NN DD e (snd (write_axes (post_mode vr) f dims i axs (x, s))) /\ names_ok DD (x_coords (fst (write_axes (post_mode vr) f dims i axs (x, s)))).
Proof.
  induction axs as [|ax r IH]; intros i x s Hfx H Hx; cbn [write_axes]; [simpl; auto|].
  destruct (inv_write_axis NN DD e vr f dims i ax x s Hfx H Hx) as [A B].
  destruct (write_axis (post_mode vr) f dims i ax (x, s)) as [x1 s1]. simpl in A, B. apply IH; assumption.
Qed.

Lemma inv_write_auxs NN DD e vr x l : forall acc s,
  Inv NN DD e s -> names_ok DD acc ->
  Inv NN DD e (snd (write_auxs (post_mode vr) x l acc s)) /\ names_ok DD (fst (write_auxs (post_mode vr) x l acc s)).
Proof.
  induction l as [|k r IH]; intros acc s H Ha; cbn [write_auxs]; [simpl; auto|].
  destruct (inv_write_aux NN DD e vr k (dims_of x (k_axes k)) s H) as [A B].
  destruct (write_aux (post_mode vr) k (dims_of x (k_axes k)) s) as [nv s1]. simpl in A, B. apply IH; [exact A|].
  intros n Hn. apply in_app_or in Hn as [Hn | [<- | []]]; auto.
Qed.

Lemma inv_write_ancs NN DD e vr f x l : forall p acc s,
  Inv NN DD e s -> names_ok DD acc ->
  Inv NN DD e (snd (write_ancs (post_mode vr) f x l p acc s)) /\ names_ok DD (fst (write_ancs (post_mode vr) f x l p acc s)).
Proof.
  induction l as [|k r IH]; intros p acc s H Ha; cbn [write_ancs]; [simpl; auto|].
  destruct (inv_write_anc NN DD e vr k (dims_of x (k_axes k)) (anc_default f p) s H) as [A B].
  destruct (write_anc (post_mode vr) k (dims_of x (k_axes k)) (anc_default f p) s) as [nv s1]. simpl in A, B.
  apply IH; [exact A|].
  intros n Hn. apply in_app_or in Hn as [Hn | [<- | []]]; auto.
Qed.

Lemma inv_write_msrs NN DD e vr x l : forall acc s,
  Inv NN DD e s -> names_ok DD (map snd acc) ->
  Inv NN DD e (snd (write_msrs (post_mode vr) x l acc s)) /\ names_ok DD (map snd (fst (write_msrs (post_mode vr) x l acc s))).
Proof.
  induction l as [|k r IH]; intros acc s H Ha; cbn [write_msrs]; [simpl; auto|].
  destruct (inv_write_msr NN DD e vr k (dims_of x (k_axes k)) s H) as [A B].
  destruct (write_msr (post_mode vr) k (dims_of x (k_axes k)) s) as [nv s1]. simpl in A, B. apply IH; [exact A|].
  intros n Hn. rewrite map_app in Hn. apply in_app_or in Hn as [Hn | [<- | []]]; auto.
Qed.

Lemma assoc_In {A} (l : list (string * A)) k v : assoc k l = Some v -> In (k, v) l.
Proof.
  induction l as [|[k' v'] r IH]; simpl; [discriminate|].
  destruct (String.eqb k k') eqn:E; [|auto].
  intro H. injection H as <-. apply String.eqb_eq in E. subst. left. reflexivity.
Qed.

(* the names in a formula_terms attribute: variables of domain ancillaries
   or their registered bounds variables *)
Lemma ft_terms_ok NN DD e f r ko av s :
  Inv NN DD e s -> names_ok DD av ->
  names_ok DD (map snd (map fst (ft_terms f r ko av s))) /\ names_ok DD (map snd (map snd (ft_terms f r ko av s))).
Proof.
  intros H Ha. unfold ft_terms. set (z := hd 0%nat (k_axes ko)).
  induction (r_terms r) as [|t ts IH]; [split; intros n []|].
  cbn [map concat]. rewrite !map_app. destruct IH as [IH1 IH2].
  destruct (snd t) as [j|]; [|simpl; auto].
  destruct (nth_error av j) as [nv|] eqn:En; [|simpl; auto].
  destruct (nth_error (f_anc f) j) as [ka|]; [|simpl; auto].
  assert (Hnv : name_ok DD nv) by (apply Ha; eapply nth_error_In; eassumption).
  split; intros n Hn; apply in_app_or in Hn as [Hn | Hn]; auto; destruct Hn as [<- | []]; simpl; [exact Hnv|].
  destruct (assoc nv (w_bnds s)) as [bn|] eqn:Eb; [|exact Hnv].
  destruct (nmem z (k_axes ka)); [|exact Hnv].
  apply assoc_In in Eb. apply (i_bnds _ _ _ _ H (nv, bn)), Eb.
Qed.

Lemma inv_write_formula NN DD e vr f dims x av s :
  Inv NN DD e s -> names_ok DD av -> Inv NN DD e (write_formula (post_mode vr) f dims x av s).
Proof.
  intros H Ha. unfold write_formula. destruct (f_ref f) as [r|]; [|exact H].
  destruct (nth_error dims (r_owner r)) as [ko|]; [|exact H].
  destruct (option_eqb _ _ _); [|exact H].
  destruct (ft_terms_ok NN DD e f r ko av s H Ha) as [T1 T2].
  destruct (ft_terms f r ko av s) as [|t ts]; [exact H|].
  destruct (lookup_nat _ _) as [ov|]; [|exact H].
  destruct (negb (m_post (post_mode vr)) || fx_formula (m_var (post_mode vr))).
  - assert (H1 : Inv NN DD e (set_created_ref (post_mode vr) ov "formula_terms" (map fst (t :: ts)) s))
      by (apply inv_set_created_ref; [exact T1 | exact H]).
    destruct (assoc ov (w_bnds s)); [|exact H1].
    apply inv_set_created_ref; [exact T2 | exact H1].
  - destruct (assoc ov (w_bnds s)); exact H.
Qed.

Lemma rnames_app a b : rnames (a ++ b) = rnames a ++ rnames b.
Proof. unfold rnames. rewrite map_app, concat_app. reflexivity. Qed.

Lemma inv_write_field NN DD e vr f s :
  fx_dimname (m_var (post_mode vr)) = true -> Inv NN DD e s -> Inv NN DD e (write_field (post_mode vr) f s).
Proof.
  intros Hfx H. unfold write_field. destruct (add_csn f) as [dims bad].
  set (s0 := if bad then set_err s else s).
  assert (H0 : Inv NN DD e s0) by (unfold s0; destruct bad; [apply inv_set_err, H | exact H]).
  destruct (inv_write_axes NN DD e vr f dims (f_axes f) 0
              {| x_a2d := []; x_dimvar := []; x_coords := []; x_span := [] |} s0 Hfx H0) as [H1 X1];
    [intros n []|].
  destruct (write_axes (post_mode vr) f dims 0 (f_axes f) _) as [x s1]. simpl in H1, X1.
  destruct (inv_write_auxs NN DD e vr x (f_aux f) (x_coords x) s1 H1 X1) as [H2 X2].
  destruct (write_auxs (post_mode vr) x (f_aux f) (x_coords x) s1) as [coords s2]. simpl in H2, X2.
  destruct (inv_write_ancs NN DD e vr f x (f_anc f) 0 [] s2 H2) as [H3 X3]; [intros n []|].
  destruct (write_ancs (post_mode vr) f x (f_anc f) 0 [] s2) as [ancvars s3]. simpl in H3, X3.
  destruct (inv_write_msrs NN DD e vr x (f_msr f) [] s3 H3) as [H4 X4]; [intros n []|].
  destruct (write_msrs (post_mode vr) x (f_msr f) [] s3) as [msrs s4]. simpl in H4, X4.
  pose proof (inv_write_formula NN DD e vr f dims x ancvars s4 H4 X3) as H5.
  inv_name H5.
  apply inv_upd_span, inv_create_var; [exact Hf | | exact Hi].
  unfold ref_names. cbn [v_refs]. fold (rnames ((match msrs with [] => [] | _ => [("cell_measures", msrs)] end) ++
              (match coords with [] => [] | _ => [("coordinates", map (fun n => ("", n)) coords)] end))).
  rewrite rnames_app. intros y Hy. apply in_app_or in Hy as [Hy | Hy].
  - destruct msrs as [|m0 mr]; [destruct Hy|]. unfold rnames in Hy. simpl in Hy. rewrite app_nil_r in Hy.
    apply X4, Hy.
  - destruct coords as [|c0 cr]; [destruct Hy|]. unfold rnames in Hy. cbn [map concat snd] in Hy.
    rewrite app_nil_r, map_map in Hy. cbn [snd] in Hy. rewrite map_id in Hy. apply X2, Hy.
Qed.

Lemma inv_write_fields NN DD e vr fs : forall s,
  fx_dimname (m_var (post_mode vr)) = true -> Inv NN DD e s -> Inv NN DD e (write_fields (post_mode vr) fs s).
Proof.
  unfold write_fields. induction fs as [|f r IH]; intros s Hfx H; simpl; [exact H|].
  apply IH; [exact Hfx | apply inv_write_field; assumption].
Qed.

Lemma inv_write_globals NN DD e vr o fs s : Inv NN DD e s -> Inv NN DD e (write_globals (post_mode vr) o fs s).
Proof.
  intro H. unfold write_globals. destruct fs as [|f0 r]; [apply inv_set_err, H|].
  destruct (conv_value o (f0 :: r)); [|apply inv_set_err, H].
  apply inv_set_gl. destruct (negb (m_dry (post_mode vr)) && negb (m_post (post_mode vr)) && negb (w_err s)); [|exact H].
  destruct H as [Hdn Hvn H1 H2 H3 H4 H5]. constructor; auto.
Qed.

Lemma dry_run_file vr e orig : w_file (dry_run vr e orig) = e.
Proof.
  unfold dry_run. change (w_file (write_fields (dry_mode vr) orig (log [EOpenR] (init e))) = e).
  rewrite (sm_write_fields (dry_mode vr) eq_refl orig (log [EOpenR] (init e))). reflexivity.
Qed.

Lemma dnames_names e n : In n (dnames e) -> In n (names_of e).
Proof.
  unfold dnames, names_of, data_vars. intro H. apply in_map_iff in H as [v [<- Hv]].
  apply filter_In in Hv as [Hv _]. apply in_or_app. right. apply in_or_app. left. apply in_map, Hv.
Qed.

Lemma varnames_names e n : In n (map v_name (d_vars e)) -> In n (names_of e).
Proof. intro H. unfold names_of. apply in_or_app. right. apply in_or_app. left. exact H. Qed.

Lemma inv_register_names NN DD vr e0 e s : Inv NN DD e s -> Inv NN DD e (register_names vr e0 s).
Proof.
  intros [Hdn Hvn H1 H2 H3 H4 H5]. unfold register_names. destruct (fx_names vr); constructor; auto.
  intros x Hx. specialize (H1 x Hx). unfold existing in *. simpl.
  apply in_app_or in H1 as [H1 | H1]; apply in_or_app; [left; apply in_or_app; right | right]; exact H1.
Qed.

Lemma covers_inv vr e orig :
  covers vr e orig = true -> Inv (names_of e) (dnames e) e (dry_run vr e orig).
Proof.
  unfold covers. set (s := dry_run vr e orig). intro H.
  apply andb_true_iff in H as [H _].
  apply andb_true_iff in H as [H Hb]. apply andb_true_iff in H as [Hn Hs].
  rewrite forallb_forall in Hn, Hs, Hb.
  destruct (proj1 (le_dry_run vr e orig) e (ext_init e)) as (_ & _ & _ & Hc). fold s in Hc.
  constructor.
  - apply dnames_names.
  - apply varnames_names.
  - intros n Hin. apply smem_In, Hn, Hin.
  - intros en Hin. apply smem_false, negb_true_iff, Hs, Hin.
  - intros p Hin. apply smem_false, negb_true_iff, Hb, Hin.
  - exact Hc.
  - exists []. unfold s. rewrite dry_run_file. split; [symmetry; apply app_nil_r | intros w []].
Qed.

(* with C17-fix3-2, unconditionally: once the names of the dataset have been
   registered, the invariant holds for N = the variable and dimension names of
   E (and no constraint on what is referenced) *)
Lemma registered_inv vr e orig :
  fx_names vr = true -> Inv (file_names e) [] e (register_names vr e (dry_run vr e orig)).
Proof.
  intro Hfx. unfold register_names. rewrite Hfx.
  destruct (proj1 (le_dry_run vr e orig) e (ext_init e)) as (_ & _ & _ & Hc).
  pose proof (dry_run_file vr e orig) as Hf.
  constructor.
  - intros n [].
  - intros n Hn. unfold file_names. apply in_or_app. left. exact Hn.
  - intros n Hn. unfold existing. cbn [w_names upd_names w_dimsz]. apply in_or_app. left. apply in_or_app. left. exact Hn.
  - intros en _ [].
  - intros q _ [].
  - exact Hc.
  - exists []. cbn [w_file upd_names]. rewrite Hf. split; [symmetry; apply app_nil_r | intros w []].
Qed.

Lemma covers_dims vr e orig v d :
  covers vr e orig = true -> In v (data_vars e) -> In d (v_dims v) -> assoc d (d_dims e) <> None.
Proof.
  unfold covers. intro H. apply andb_true_iff in H as [_ H]. rewrite forallb_forall in H.
  intros Hv Hd. specialize (H v Hv). rewrite forallb_forall in H. specialize (H d Hd).
  destruct (assoc d (d_dims e)); [discriminate | discriminate].
Qed.

(* every name met while assembling a field of E is a name of E *)
Lemma reach_names e fuel : forall names,
  (forall n, In n names -> In n (names_of e)) ->
  forall n ov, In (n, ov) (reach fuel e names) -> In n (names_of e).
Proof.
  induction fuel as [|k IH]; intros names Hall n ov Hin; [destruct Hin|].
  simpl in Hin. apply in_concat in Hin as [l [Hl Hin]]. apply in_map_iff in Hl as [n0 [<- Hn0]].
  destruct (lookup_var e n0) as [v|] eqn:E.
  - destruct Hin as [Heq | Hin]; [injection Heq as <- _; auto|].
    apply (IH (ref_names v ++ v_dims v)) with (ov := ov); [|exact Hin].
    unfold lookup_var in E. apply find_some in E as [Hv _].
    intros x Hx. unfold names_of. apply in_or_app. right. apply in_or_app. right.
    apply in_app_or in Hx as [Hx | Hx]; apply in_or_app; [left | right].
    + unfold referenced. apply in_concat. eexists. split; [apply in_map, Hv | exact Hx].
    + apply in_concat. eexists. split; [apply in_map, Hv | exact Hx].
  - destruct Hin as [Heq | []]. injection Heq as <- _. auto.
Qed.

Lemma var_names_in e v : In v (d_vars e) -> forall n, In n (ref_names v ++ v_dims v) -> In n (names_of e).
Proof.
  intros Hv x Hx. unfold names_of. apply in_or_app. right. apply in_or_app. right.
  apply in_app_or in Hx as [Hx | Hx]; apply in_or_app; [left | right].
  - unfold referenced. apply in_concat. eexists. split; [apply in_map, Hv | exact Hx].
  - apply in_concat. eexists. split; [apply in_map, Hv | exact Hx].
Qed.

Lemma append_run_inv_gen NN DD vr nc4 o e orig new :
  fx_dimname vr = true -> Inv NN DD e (register_names vr e (dry_run vr e orig)) ->
  exists vv, d_vars (w_file (append_run vr nc4 o e orig new)) = d_vars e ++ vv /\
             forall w, In w vv -> ~ In (v_name w) NN /\ forall n, In n (ref_names w) -> ~ In n DD.
Proof.
  intros Hfx H1. unfold append_run. destruct (refuse vr nc4 orig new).
  - exists []. simpl. split; [symmetry; apply app_nil_r | intros w []].
  - destruct (w_err (dry_run vr e orig)).
    + exists []. rewrite dry_run_file. split; [symmetry; apply app_nil_r | intros w []].
    + apply (i_file NN DD). apply inv_log, inv_write_fields; [exact Hfx|].
      apply inv_write_globals, inv_reopen, inv_log, H1.
Qed.

Lemma append_run_inv vr nc4 o e orig new :
  fx_dimname vr = true -> covers vr e orig = true ->
  exists vv, d_vars (w_file (append_run vr nc4 o e orig new)) = d_vars e ++ vv /\
             forall w, In w vv -> ~ In (v_name w) (names_of e) /\
                                  forall n, In n (ref_names w) -> ~ In n (dnames e).
Proof.
  intros Hfx Hc. apply append_run_inv_gen; [exact Hfx|].
  apply inv_register_names, covers_inv, Hc.
Qed.

(* C17-fix3-2: whatever the re-read gave (no hypothesis on it), no variable
   created by an append takes the name of a variable or of a dimension of the
   dataset *)
Theorem dataset_names_not_reused vr nc4 o e orig new :
  fx_dimname vr = true -> fx_names vr = true ->
  exists vv, d_vars (fst (append vr nc4 o e orig new)) = d_vars e ++ vv /\
             forall w, In w vv -> ~ In (v_name w) (file_names e).
Proof.
  intros Hd Hn. destruct (append_run_inv_gen (file_names e) [] vr nc4 o e orig new Hd (registered_inv vr e orig Hn))
    as [vv [Hv Hall]].
  exists vv. split; [exact Hv|]. intros w Hw. apply (Hall w Hw).
Qed.

(* THE OLD FIELDS: every data variable of E is still a data variable of the
   file after the append, and the field assembled from it - the variable,
   the global attributes, the dimension sizes, the whole closure of
   referenced and coordinate variables, to any depth - is the same *)
Theorem old_fields_kept vr nc4 o e orig new fuel v :
  fx_dimname vr = true -> covers vr e orig = true -> In v (data_vars e) ->
  In v (data_vars (fst (append vr nc4 o e orig new))) /\
  view fuel (fst (append vr nc4 o e orig new)) v = view fuel e v.
Proof.
  intros Hfx Hc Hv.
  destruct (append_run_inv vr nc4 o e orig new Hfx Hc) as [vv [Hvv Hall]].
  assert (Hin : In v (d_vars e)) by (unfold data_vars in Hv; apply filter_In in Hv as [Hv _]; exact Hv).
  apply (old_fields_frame fuel e _ vv v).
  - apply preserve.
  - exact Hvv.
  - exact Hv.
  - intros d Hd. eapply covers_dims; eassumption.
  - intros n Hn Hbad. apply in_map_iff in Hbad as [w [Ew Hw]].
    destruct (Hall w Hw) as [Ha _]. apply Ha. rewrite Ew.
    exact (reach_names e fuel _ (var_names_in e v Hin) n None Hn).
  - intros w Hw Hbad. destruct (Hall w Hw) as [_ Hb]. apply (Hb _ Hbad).
    unfold dnames. apply in_map, Hv.
Qed.

(* the same through any sequence of appends whose re-reads cover the file *)
Theorem old_fields_kept_seq vr nc4 reread fuel : forall news e v,
  fx_dimname vr = true ->
  (forall e', covers vr e' (reread e') = true) ->
  In v (data_vars e) ->
  In v (data_vars (append_seq vr nc4 reread e news)) /\
  view fuel (append_seq vr nc4 reread e news) v = view fuel e v.
Proof.
  induction news as [|n r IH]; intros e v Hfx Hc Hv; cbn [append_seq]; [split; [exact Hv | reflexivity]|].
  destruct (old_fields_kept vr nc4 (fst n) e (reread e) (snd n) fuel v Hfx (Hc e) Hv) as [A B].
  destruct (IH _ v Hfx Hc A) as [C D]. split; [exact C | rewrite D; exact B].
Qed.

(* ------------------------------------------------------------------------ *)
(* 13. The spelling of the mode                                               *)
(* ------------------------------------------------------------------------ *)
Theorem append_spellings sp : parse_mode sp = Some ModeA <-> sp = "a" \/ sp = "r+".
Proof.
  unfold parse_mode. split.
  - destruct (String.eqb sp "w") eqn:Ew; [discriminate|].
    destruct (String.eqb sp "a") eqn:Ea; [intros _; left; apply String.eqb_eq, Ea|].
    destruct (String.eqb sp "r+") eqn:Er; [intros _; right; apply String.eqb_eq, Er | discriminate].
  - intros [-> | ->]; reflexivity.
Qed.

(* the outcome of a call is the same for every accepted spelling of append mode *)
Theorem mode_spelling_irrelevant vr sp1 sp2 nc4 o e orig new :
  parse_mode sp1 = Some ModeA -> parse_mode sp2 = Some ModeA ->
  write_call vr sp1 nc4 o e orig new = write_call vr sp2 nc4 o e orig new.
Proof. intros H1 H2. unfold write_call. rewrite H1, H2. reflexivity. Qed.

Theorem mode_alias vr nc4 o e orig new :
  write_call vr "r+" nc4 o e orig new = write_call vr "a" nc4 o e orig new /\
  fst (write_call vr "r+" nc4 o e orig new) = fst (append vr nc4 o e orig new).
Proof. unfold write_call. simpl. destruct (append vr nc4 o e orig new). split; reflexivity. Qed.

(* so everything proved about [append] holds for either spelling *)
Corollary alias_preserves vr sp nc4 o e orig new :
  parse_mode sp = Some ModeA -> extends e (fst (write_call vr sp nc4 o e orig new)).
Proof.
  intro H. unfold write_call. rewrite H. pose proof (preserve vr nc4 o e orig new) as P.
  destruct (append vr nc4 o e orig new). exact P.
Qed.

Theorem bad_mode_untouched vr sp nc4 o e orig new :
  parse_mode sp = None -> write_call vr sp nc4 o e orig new = (e, CBadMode).
Proof. intro H. unfold write_call. rewrite H. reflexivity. Qed.

(* C17-fix3-4: the dry run registers every name as the construct read from
   the dataset carries it; the appending pass keeps making names unique *)
Theorem dry_run_keeps_names vr b s :
  fx_norename vr = true ->
  netcdf_name_m (dry_mode vr) b s = (b, upd_names (cons b) s) /\
  netcdf_name_m (post_mode vr) b s = netcdf_name b s.
Proof. intro H. unfold netcdf_name_m. simpl. rewrite H. split; reflexivity. Qed.
