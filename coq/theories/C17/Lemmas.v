(* C17 - proofs. *)
From CfdmV Require Import Common.Base Tables.AppendConstants C17.Model C17.Spec.
Open Scope string_scope.
Open Scope list_scope.

Lemma smem_In x l : smem x l = true <-> In x l.
Proof.
  unfold smem. rewrite existsb_exists. split.
  - intros [y [Hy E]]. apply String.eqb_eq in E. subst. exact Hy.
  - intro H. exists x. split; [exact H | apply String.eqb_refl].
Qed.

Lemma smem_false x l : smem x l = false -> ~ In x l.
Proof. intros H Hin. apply smem_In in Hin. congruence. Qed.

(* ------------------------------------------------------------------------ *)
(* 1. Preservation: whatever the writer does, the file only grows            *)
(* ------------------------------------------------------------------------ *)
Definition ext (e : file) (s : wst) : Prop :=
  (exists dd, d_dims (w_file s) = d_dims e ++ dd) /\
  (exists vv, d_vars (w_file s) = d_vars e ++ vv) /\
  d_gatts (w_file s) = d_gatts e /\
  (forall n, In n (w_created s) -> ~ In n (map v_name (d_vars e))).

Definition nvars (s : wst) : nat := length (d_vars (w_file s)).

(* s' is reached from s by writer steps: the file only grows, an error is
   never forgotten, variables are never removed *)
Definition le (s s' : wst) : Prop :=
  (forall e, ext e s -> ext e s') /\ (w_err s = true -> w_err s' = true) /\ (nvars s <= nvars s')%nat.

Lemma le_refl s : le s s.
Proof. split; [intros e H; exact H | split; auto]. Qed.

Lemma le_trans s1 s2 s3 : le s1 s2 -> le s2 s3 -> le s1 s3.
Proof.
  intros (A1 & A2 & A3) (B1 & B2 & B3).
  split; [intros e H; apply B1, A1, H | split; [auto | eapply Nat.le_trans; eassumption]].
Qed.

Lemma le_same s s' : w_file s' = w_file s -> w_created s' = w_created s ->
  (w_err s = true -> w_err s' = true) -> le s s'.
Proof.
  intros Hf Hc He. split; [|split; [exact He | unfold nvars; rewrite Hf; auto]].
  intros e H. unfold ext in *. rewrite Hf, Hc. exact H.
Qed.

Ltac le_same := apply le_same; [reflexivity | reflexivity | simpl; auto].

Lemma le_set_err s : le s (set_err s).
Proof. le_same. Qed.

Lemma le_create_dim m n z s : le s (create_dim m n z s).
Proof.
  unfold create_dim. destruct (m_dry m || w_err s); [apply le_refl|].
  destruct (smem n _); [apply le_set_err|].
  split; [|split; [simpl; auto | unfold nvars; simpl; auto]].
  intros e (Hd & Hv & Hg & Hc). unfold ext; simpl. repeat split; auto.
  destruct Hd as [dd Hd]. exists (dd ++ [(n, z)]). rewrite Hd, app_assoc. reflexivity.
Qed.

Lemma le_create_var m v s : le s (create_var m v s).
Proof.
  unfold create_var. destruct (m_dry m || w_err s); [apply le_refl|].
  destruct (smem (v_name v) _) eqn:E; [apply le_set_err|].
  split; [|split; [simpl; auto | unfold nvars; simpl; rewrite app_length; simpl; lia]].
  intros e (Hd & Hv & Hg & Hc). unfold ext; simpl. repeat split; auto.
  - destruct Hv as [vv Hv]. exists (vv ++ [v]). rewrite Hv, app_assoc. reflexivity.
  - intros n [Hn | Hn]; [|auto]. subst n. intro Hin.
    apply smem_false in E. apply E. destruct Hv as [vv Hv]. rewrite Hv, map_app.
    apply in_or_app. left. exact Hin.
Qed.

Lemma le_set_created_ref m n a l s : le s (set_created_ref m n a l s).
Proof.
  unfold set_created_ref. destruct (m_dry m || w_err s); [apply le_refl|].
  destruct (smem n (w_created s)) eqn:E; [|apply le_refl].
  split; [|split; [simpl; auto | unfold nvars; simpl; rewrite map_length; auto]].
  intros e (Hd & Hv & Hg & Hc). unfold ext; simpl. repeat split; auto.
  destruct Hv as [vv Hv]. rewrite Hv, map_app.
  eexists. f_equal.
  rewrite <- (map_id (d_vars e)) at 2. apply map_ext_in.
  intros v Hin. destruct (String.eqb (v_name v) n) eqn:En; [|reflexivity].
  apply String.eqb_eq in En. exfalso. apply smem_In in E. apply (Hc n E).
  rewrite <- En. apply in_map. exact Hin.
Qed.

Lemma le_netcdf_name b s : le s (snd (netcdf_name b s)).
Proof.
  unfold netcdf_name. destruct (smem b (existing s)).
  - destruct (first_free _ _ _ _); simpl; [le_same | apply le_set_err].
  - simpl. le_same.
Qed.

Lemma le_write_var m n dims c attrs refs s : le s (write_var m n dims c attrs refs s).
Proof.
  unfold write_var. eapply le_trans; [|apply le_create_var]. le_same.
Qed.

Lemma le_write_bounds m k c cd cv s : le s (snd (write_bounds m k c cd cv s)).
Proof.
  unfold write_bounds. destruct (c_bnd c) as [b|]; [|apply le_refl].
  set (size := last (b_shape b) 0%Z).
  destruct (find _ (w_bdims s)) as [d|].
  - (* existing bounds dimension *)
    destruct (find_seen _ _ _ s) as [e0|]; simpl; [le_same|].
    match goal with |- context [netcdf_name ?b ?s0] => pose proof (le_netcdf_name b s0) as Hn;
      destruct (netcdf_name b s0) as [bv s3] eqn:En end. simpl in *.
    eapply le_trans; [|le_same].
    eapply le_trans; [|apply le_write_var].
    eapply le_trans; [|exact Hn].
    destruct (negb _); [|apply le_refl].
    eapply le_trans; [|apply le_create_dim]. le_same.
  - match goal with |- context [netcdf_name ?b ?s0] => pose proof (le_netcdf_name b s0) as Hn0;
      destruct (netcdf_name b s0) as [n0 s0'] eqn:En0 end. simpl in Hn0.
    destruct (find_seen _ _ _ _) as [e0|]; simpl.
    + eapply le_trans; [exact Hn0|]. eapply le_trans; [|le_same]. le_same.
    + match goal with |- context [netcdf_name ?b ?s0] => pose proof (le_netcdf_name b s0) as Hn;
        destruct (netcdf_name b s0) as [bv s3] eqn:En end. simpl in *.
      eapply le_trans; [|le_same].
      eapply le_trans; [|apply le_write_var].
      eapply le_trans; [|exact Hn].
      eapply le_trans; [exact Hn0|].
      eapply le_trans; [|]. 2:{ destruct (negb _); [|apply le_refl].
                                 eapply le_trans; [|apply le_create_dim]. le_same. }
      le_same.
Qed.

Ltac with_name :=
  match goal with |- context [netcdf_name ?b ?s0] =>
    let H := fresh "Hn" in let E := fresh "En" in
    pose proof (le_netcdf_name b s0) as H; destruct (netcdf_name b s0) eqn:E; simpl in H end.

Ltac with_bounds :=
  match goal with |- context [write_bounds ?m ?k ?c ?cd ?cv ?s0] =>
    let H := fresh "Hb" in let E := fresh "Eb" in
    pose proof (le_write_bounds m k c cd cv s0) as H; destruct (write_bounds m k c cd cv s0) eqn:E; simpl in H end.

Lemma le_dimcoord_name m ax k c s : le s (snd (dimcoord_name m ax k c s)).
Proof.
  unfold dimcoord_name. destruct (fx_dimname (m_var m)).
  - destruct (a_ncdim ax); destruct (k_ncvar k); try destruct (name_of k c None); apply le_netcdf_name.
  - destruct (name_of k c None); [apply le_netcdf_name|].
    destruct (a_ncdim ax); [apply le_refl | apply le_netcdf_name].
Qed.

Lemma le_write_dimcoord m ax k c s : le s (snd (write_dimcoord m ax k c s)).
Proof.
  unfold write_dimcoord.
  destruct (match find_seen false c None s with Some e => _ | None => None end) as [r|];
    [simpl; apply le_refl|].
  pose proof (le_dimcoord_name m ax k c s) as Hn.
  destruct (dimcoord_name m ax k c s) as [nv s1]. simpl in Hn. with_bounds. simpl.
  eapply le_trans; [exact Hn|]. eapply le_trans; [|apply le_write_var].
  eapply le_trans; [|exact Hb]. eapply le_trans; [|apply le_create_dim]. le_same.
Qed.

Lemma le_write_scalar m k c s : le s (snd (write_scalar m k c s)).
Proof.
  unfold write_scalar. destruct (find_seen _ _ _ s); [simpl; apply le_refl|].
  with_name. with_bounds. simpl.
  eapply le_trans; [exact Hn|]. eapply le_trans; [|apply le_write_var]. exact Hb.
Qed.

Lemma le_write_aux m k d s : le s (snd (write_aux m k d s)).
Proof.
  unfold write_aux. destruct (find_seen _ _ _ s); [simpl; apply le_refl|].
  with_name. with_bounds. simpl.
  eapply le_trans; [exact Hn|]. eapply le_trans; [|apply le_write_var]. exact Hb.
Qed.

Lemma le_write_anc m k d df s : le s (snd (write_anc m k d df s)).
Proof.
  unfold write_anc. destruct (find_seen _ _ _ s); [simpl; apply le_refl|].
  with_name. with_bounds. simpl.
  eapply le_trans; [exact Hn|]. eapply le_trans; [|apply le_write_var]. exact Hb.
Qed.

Lemma le_write_msr m k d s : le s (snd (write_msr m k d s)).
Proof.
  unfold write_msr. destruct (find_seen _ _ _ s); [simpl; apply le_refl|].
  with_name. simpl. eapply le_trans; [exact Hn|]. apply le_write_var.
Qed.

Lemma le_write_axis m f dims i ax x s : le s (snd (write_axis m f dims i ax (x, s))).
Proof.
  unfold write_axis. destruct (dim_for i dims 0) as [[p k]|].
  - destruct (nmem i (f_daxes f)).
    + pose proof (le_write_dimcoord m ax k (k_c k) s) as H.
      destruct (write_dimcoord m ax k (k_c k) s) as [[nv nd] s1]. exact H.
    + pose proof (le_write_scalar m k (k_c k) s) as H.
      destruct (write_scalar m k (k_c k) s) as [nv s1]. exact H.
  - destruct (nmem i (f_daxes f)); [|apply le_refl].
    destruct (if match spanning f i with [] => false | _ => true end then _ else None);
      [simpl; apply le_refl|].
    with_name. simpl. eapply le_trans; [exact Hn|].
    eapply le_trans; [|apply le_create_dim]. le_same.
Qed.

Lemma le_write_axes m f dims axs : forall i x s, le s (snd (write_axes m f dims i axs (x, s))).
Proof.
  induction axs as [|ax r IH]; intros i x s; cbn [write_axes snd]; [apply le_refl|].
  pose proof (le_write_axis m f dims i ax x s) as H.
  destruct (write_axis m f dims i ax (x, s)) as [x1 s1]. simpl in H.
  eapply le_trans; [exact H | apply IH].
Qed.

Lemma le_write_auxs m x l : forall acc s, le s (snd (write_auxs m x l acc s)).
Proof.
  induction l as [|k r IH]; intros acc s; cbn [write_auxs snd]; [apply le_refl|].
  pose proof (le_write_aux m k (dims_of x (k_axes k)) s) as H.
  destruct (write_aux m k (dims_of x (k_axes k)) s) as [nv s1]. simpl in H.
  eapply le_trans; [exact H | apply IH].
Qed.

Lemma le_write_ancs m f x l : forall p acc s, le s (snd (write_ancs m f x l p acc s)).
Proof.
  induction l as [|k r IH]; intros p acc s; cbn [write_ancs snd]; [apply le_refl|].
  pose proof (le_write_anc m k (dims_of x (k_axes k)) (anc_default f p) s) as H.
  destruct (write_anc m k (dims_of x (k_axes k)) (anc_default f p) s) as [nv s1]. simpl in H.
  eapply le_trans; [exact H | apply IH].
Qed.

Lemma le_write_msrs m x l : forall acc s, le s (snd (write_msrs m x l acc s)).
Proof.
  induction l as [|k r IH]; intros acc s; cbn [write_msrs snd]; [apply le_refl|].
  pose proof (le_write_msr m k (dims_of x (k_axes k)) s) as H.
  destruct (write_msr m k (dims_of x (k_axes k)) s) as [nv s1]. simpl in H.
  eapply le_trans; [exact H | apply IH].
Qed.

Lemma le_write_formula m f dims x av s : le s (write_formula m f dims x av s).
Proof.
  unfold write_formula. destruct (f_ref f) as [r|]; [|apply le_refl].
  destruct (nth_error dims (r_owner r)) as [ko|]; [|apply le_refl].
  destruct (option_eqb _ _ _); [|apply le_refl].
  destruct (ft_terms _ _ _ _ _) as [|t ts]; [apply le_refl|].
  destruct (lookup_nat _ _) as [ov|]; [|apply le_refl].
  destruct (negb (m_post m) || fx_formula (m_var m)).
  - destruct (assoc ov (w_bnds s)).
    + eapply le_trans; apply le_set_created_ref.
    + apply le_set_created_ref.
  - destruct (assoc ov (w_bnds s)); apply le_refl.
Qed.

Lemma le_write_field m f s : le s (write_field m f s).
Proof.
  unfold write_field. destruct (add_csn f) as [dims bad].
  set (s0 := if bad then set_err s else s).
  assert (H0 : le s s0) by (unfold s0; destruct bad; [apply le_set_err | apply le_refl]).
  pose proof (le_write_axes m f dims (f_axes f) 0
                {| x_a2d := []; x_dimvar := []; x_coords := []; x_span := [] |} s0) as H1.
  destruct (write_axes m f dims 0 (f_axes f) _) as [x s1]. simpl in H1.
  pose proof (le_write_auxs m x (f_aux f) (x_coords x) s1) as H2.
  destruct (write_auxs m x (f_aux f) (x_coords x) s1) as [coords s2]. simpl in H2.
  pose proof (le_write_ancs m f x (f_anc f) 0 [] s2) as H3.
  destruct (write_ancs m f x (f_anc f) 0 [] s2) as [ancvars s3]. simpl in H3.
  pose proof (le_write_msrs m x (f_msr f) [] s3) as H4.
  destruct (write_msrs m x (f_msr f) [] s3) as [msrs s4]. simpl in H4.
  pose proof (le_write_formula m f dims x ancvars s4) as H5.
  with_name.
  eapply le_trans; [exact H0|]. eapply le_trans; [exact H1|]. eapply le_trans; [exact H2|].
  eapply le_trans; [exact H3|]. eapply le_trans; [exact H4|]. eapply le_trans; [exact H5|].
  eapply le_trans; [exact Hn|]. eapply le_trans; [apply le_create_var|]. le_same.
Qed.

Lemma le_write_fields m fs : forall s, le s (write_fields m fs s).
Proof.
  unfold write_fields. induction fs as [|f r IH]; intro s; simpl; [apply le_refl|].
  eapply le_trans; [apply le_write_field | apply IH].
Qed.

Lemma ext_init e : ext e (init e).
Proof.
  unfold ext, init; simpl. repeat split; auto.
  - exists []. symmetry. apply app_nil_r.
  - exists []. symmetry. apply app_nil_r.
Qed.

Lemma le_set_gl gl s : le s (set_gl gl s).
Proof.
  split; [|split; [simpl; auto | unfold nvars; simpl; auto]].
  intros e (Hd & Hv & Hg & Hc). unfold ext; simpl. repeat split; auto.
Qed.

Lemma append_run_ext vr nc4 e orig new : ext e (append_run vr nc4 e orig new).
Proof.
  unfold append_run. destruct (refuse vr nc4 orig new).
  - apply (proj1 (le_set_err (init e))), ext_init.
  - set (dry := {| m_dry := true; m_post := false; m_var := vr |}).
    set (post := {| m_dry := false; m_post := true; m_var := vr |}).
    assert (H1 : ext e (log [EClose] (write_fields dry orig (log [EOpenR] (init e))))).
    { assert (L : le (init e) (log [EClose] (write_fields dry orig (log [EOpenR] (init e))))).
      { eapply le_trans; [|le_same]. eapply le_trans; [|apply le_write_fields]. le_same. }
      apply (proj1 L), ext_init. }
    destruct (w_err _); [exact H1|].
    assert (L : forall s, le s (log [EClose] (write_fields post new
                 (set_gl (compute_gl vr (d_gatts e) new) (log [EOpenA] s))))).
    { intro s. eapply le_trans; [|le_same]. eapply le_trans; [|apply le_write_fields].
      eapply le_trans; [|apply le_set_gl]. le_same. }
    apply (proj1 (L _)), H1.
Qed.

Theorem preserve vr nc4 e orig new : extends e (fst (append vr nc4 e orig new)).
Proof.
  unfold append; simpl. destruct (append_run_ext vr nc4 e orig new) as (Hd & Hv & Hg & _).
  unfold extends. auto.
Qed.

(* ------------------------------------------------------------------------ *)
(* 2. Refusal comes first                                                     *)
(* ------------------------------------------------------------------------ *)
Theorem refuse_first vr nc4 e orig new :
  refuse vr nc4 orig new = true ->
  let s := append_run vr nc4 e orig new in
  w_file s = e /\ w_log s = [ERead; ERaise] /\ no_modification (w_log s) /\
  append vr nc4 e orig new = (e, Refused).
Proof.
  intro H. unfold append, append_run. rewrite H. simpl. repeat split.
Qed.

Theorem not_refused_outcome vr nc4 e orig new :
  refuse vr nc4 orig new = false -> snd (append vr nc4 e orig new) <> Refused.
Proof.
  intro H. unfold append. rewrite H. simpl. destruct (w_err _); discriminate.
Qed.

(* ------------------------------------------------------------------------ *)
(* 3. The repaired decision is the documented one                            *)
(* ------------------------------------------------------------------------ *)
Lemma refuse_ft_new_spec orig new :
  refuse_ft_new orig new = existsb (ft_incompatible (orig_ft orig)) new.
Proof.
  unfold refuse_ft_new.
  set (o := orig_ft orig).
  assert (G : forall l,
    match concat (map (fun f => match field_ft f with Some v => [v] | None => [] end) l) with
    | [] => false
    | x :: r => negb (forallb (fun v => option_eqb String.eqb o (Some v)) (x :: r))
    end = existsb (ft_incompatible o) l).
  { induction l as [|f r IH]; [reflexivity|].
    simpl. unfold ft_incompatible at 1. destruct (field_ft f) as [t|]; simpl.
    - rewrite <- IH. destruct (option_eqb String.eqb o (Some t)); simpl; [|reflexivity].
      destruct (concat _); reflexivity.
    - exact IH. }
  rewrite <- G. destruct (concat _); reflexivity.
Qed.

Theorem refusal_is_documented nc4 orig new :
  refuse new_code nc4 orig new = unsupported (orig_ft orig) new.
Proof.
  unfold refuse, unsupported. simpl. rewrite refuse_ft_new_spec. reflexivity.
Qed.

(* ------------------------------------------------------------------------ *)
(* 4. Properties of an appended field: written, or held by the file           *)
(* ------------------------------------------------------------------------ *)
Lemma option_str_eqb_eq (a b : option string) : option_eqb String.eqb a b = true -> a = b.
Proof.
  destruct a, b; simpl; intro H; try discriminate; [|reflexivity].
  apply String.eqb_eq in H. congruence.
Qed.

Theorem props_kept_or_held gatts fs f a x :
  In f fs -> prop_of (f_props f) a = Some x ->
  kept_or_held gatts (compute_gl new_code gatts fs) a x.
Proof.
  intros Hin Hp. unfold kept_or_held.
  destruct (smem a (compute_gl new_code gatts fs)) eqn:E; [right | left; reflexivity].
  apply smem_In in E. unfold compute_gl in E. destruct fs as [|f0 rest]; [destruct Hin|].
  simpl in E. apply filter_In in E as [E Hg]. apply filter_In in E as [_ Hs].
  apply option_str_eqb_eq in Hg.
  destruct (prop_of (f_props f0) a) as [p0|] eqn:E0; [|discriminate].
  destruct Hin as [<- | Hin].
  - congruence.
  - rewrite forallb_forall in Hs. specialize (Hs f Hin). apply option_str_eqb_eq in Hs. congruence.
Qed.

(* what is written on the data variable *)
Lemma filter_keeps (gl : list string) (p : props) a x :
  In (a, x) p -> smem a gl = false -> In (a, x) (filter (fun q => negb (smem (fst q) gl)) p).
Proof. intros H E. apply filter_In. split; [exact H | simpl; rewrite E; reflexivity]. Qed.

(* ------------------------------------------------------------------------ *)
(* 5. Sharing only where equal                                                *)
(* ------------------------------------------------------------------------ *)
Lemma find_seen_sound ig c d s e :
  find_seen ig c d s = Some e ->
  In e (w_seen s) /\ content_eqb ig c (e_c e) = true /\
  match d with Some dd => list_eqb String.eqb dd (e_ncdims e) = true | None => True end.
Proof.
  unfold find_seen. intro H. apply find_some in H as [Hin Hb].
  apply andb_true_iff in Hb as [H1 H2]. repeat split; auto.
  destruct d; auto.
Qed.

Lemma write_var_seen m n d c a r s :
  In {| e_c := c; e_ncvar := n; e_ncdims := d |} (w_seen (write_var m n d c a r s)).
Proof.
  unfold write_var, create_var.
  match goal with |- In ?x (w_seen (if ?b then ?a else _)) =>
    assert (G : In x (w_seen a)) by (simpl; apply in_or_app; right; left; reflexivity);
    destruct b; [exact G|] end.
  destruct (smem _ _); simpl; apply in_or_app; right; left; reflexivity.
Qed.

Theorem aux_shared_only_if_equal m k d s nv s' :
  write_aux m k d s = (nv, s') ->
  (exists e, In e (w_seen s) /\ e_ncvar e = nv /\ content_eqb false (k_c k) (e_c e) = true /\
             list_eqb String.eqb d (e_ncdims e) = true /\ s' = s)
  \/ (find_seen false (k_c k) (Some d) s = None /\
      In {| e_c := k_c k; e_ncvar := nv; e_ncdims := d |} (w_seen s')).
Proof.
  unfold write_aux. destruct (find_seen false (k_c k) (Some d) s) as [e|] eqn:E.
  - intro H. inversion H; subst. left. apply find_seen_sound in E as (A & B & C). exists e. auto.
  - intro H. right. split; [reflexivity|].
    destruct (netcdf_name _ s) as [n1 s1]. destruct (write_bounds _ _ _ _ _ s1) as [ex s2].
    inversion H; subst. apply write_var_seen.
Qed.

Theorem msr_shared_only_if_equal m k d s nv s' :
  write_msr m k d s = (nv, s') ->
  (exists e, In e (w_seen s) /\ e_ncvar e = nv /\ content_eqb false (k_c k) (e_c e) = true /\
             list_eqb String.eqb d (e_ncdims e) = true /\ s' = s)
  \/ (find_seen false (k_c k) (Some d) s = None /\
      In {| e_c := k_c k; e_ncvar := nv; e_ncdims := d |} (w_seen s')).
Proof.
  unfold write_msr. destruct (find_seen false (k_c k) (Some d) s) as [e|] eqn:E.
  - intro H. inversion H; subst. left. apply find_seen_sound in E as (A & B & C). exists e. auto.
  - intro H. right. split; [reflexivity|].
    destruct (netcdf_name _ s) as [n1 s1]. inversion H; subst. apply write_var_seen.
Qed.

Theorem anc_shared_only_if_equal m k d df s nv s' :
  write_anc m k d df s = (nv, s') ->
  (exists e, In e (w_seen s) /\ e_ncvar e = nv /\ content_eqb true (k_c k) (e_c e) = true /\
             list_eqb String.eqb d (e_ncdims e) = true /\ s' = s)
  \/ (find_seen true (k_c k) (Some d) s = None /\
      In {| e_c := k_c k; e_ncvar := nv; e_ncdims := d |} (w_seen s')).
Proof.
  unfold write_anc. destruct (find_seen true (k_c k) (Some d) s) as [e|] eqn:E.
  - intro H. inversion H; subst. left. apply find_seen_sound in E as (A & B & C). exists e. auto.
  - intro H. right. split; [reflexivity|].
    destruct (netcdf_name _ s) as [n1 s1]. destruct (write_bounds _ _ _ _ _ s1) as [ex s2].
    inversion H; subst. apply write_var_seen.
Qed.

Theorem dimcoord_shared_only_if_equal m ax k c s nv nd s' :
  write_dimcoord m ax k c s = ((nv, nd), s') ->
  (exists e, In e (w_seen s) /\ e_ncvar e = nv /\ content_eqb false c (e_c e) = true /\ s' = s)
  \/ (nd = nv /\ In {| e_c := c; e_ncvar := nv; e_ncdims := [nv] |} (w_seen s')).
Proof.
  unfold write_dimcoord.
  assert (C : forall base,
    (let '(nv0, s1) := base in
     let '(extra, s3) := write_bounds m k c [nv0] nv0
                          (create_dim m nv0 (a_size ax) (upd_dimsz (cons (nv0, a_size ax)) s1)) in
     (nv0, nv0, write_var m nv0 [nv0] c (c_props c) extra s3)) = (nv, nd, s') ->
    nd = nv /\ In {| e_c := c; e_ncvar := nv; e_ncdims := [nv] |} (w_seen s')).
  { intros [nv0 s1]. destruct (write_bounds _ _ _ _ _ _) as [ex s3]. intro H.
    inversion H; subst. split; [reflexivity | apply write_var_seen]. }
  destruct (find_seen false c None s) as [e|] eqn:E.
  - apply find_seen_sound in E as (A & B & _).
    destruct (e_ncdims e) as [|d0 r].
    + intro H. inversion H; subst. left. exists e. auto.
    + destruct (String.eqb (e_ncvar e) d0) eqn:En.
      * intro H. inversion H; subst. left. exists e. auto.
      * intro H. right. eapply C. exact H.
  - intro H. right. eapply C. exact H.
Qed.

(* ------------------------------------------------------------------------ *)
(* 6. The abstract reader: old data variables and what they are built from   *)
(* ------------------------------------------------------------------------ *)
Lemma lookup_app_some e vv n v :
  lookup_var e n = Some v ->
  find (fun w => String.eqb (v_name w) n) (d_vars e ++ vv) = Some v.
Proof.
  unfold lookup_var. induction (d_vars e) as [|w r IH]; simpl; [discriminate|].
  destruct (String.eqb (v_name w) n); auto.
Qed.

Lemma lookup_app_none e vv n :
  lookup_var e n = None -> ~ In n (map v_name vv) ->
  find (fun w => String.eqb (v_name w) n) (d_vars e ++ vv) = None.
Proof.
  unfold lookup_var. intros H Hn. induction (d_vars e) as [|w r IH]; simpl in *.
  - induction vv as [|w r IH]; simpl in *; [reflexivity|].
    destruct (String.eqb (v_name w) n) eqn:E.
    + apply String.eqb_eq in E. exfalso. apply Hn. left. exact E.
    + apply IH. intro. apply Hn. right. assumption.
  - destruct (String.eqb (v_name w) n); [discriminate | auto].
Qed.

(* names that were looked up without success must stay unresolved *)
Definition stable (fuel : nat) (e : file) (vv : list var) (names : list string) : Prop :=
  forall n, In (n, None) (reach fuel e names) -> ~ In n (map v_name vv).

Lemma reach_frame fuel : forall e e' vv names,
  d_vars e' = d_vars e ++ vv -> stable fuel e vv names ->
  reach fuel e' names = reach fuel e names.
Proof.
  induction fuel as [|k IH]; intros e e' vv names Hv Hs; [reflexivity|].
  simpl. f_equal. apply map_ext_in. intros n Hn.
  destruct (lookup_var e n) as [v|] eqn:E.
  - unfold lookup_var at 1. rewrite Hv, (lookup_app_some _ _ _ _ E). f_equal.
    apply (IH e e' vv); [exact Hv|].
    intros n' Hin. apply Hs. simpl. apply in_concat.
    eexists. split; [apply in_map; exact Hn|]. rewrite E. right. exact Hin.
  - unfold lookup_var at 1. rewrite Hv, lookup_app_none; auto.
    apply Hs. simpl. apply in_concat. eexists. split; [apply in_map; exact Hn|].
    rewrite E. left. reflexivity.
Qed.

Lemma assoc_app_some {A} (l l' : list (string * A)) k v :
  assoc k l = Some v -> assoc k (l ++ l') = Some v.
Proof.
  induction l as [|[k' v'] r IH]; simpl; [discriminate|].
  destruct (String.eqb k k'); auto.
Qed.

Theorem old_fields_frame fuel e e' vv v :
  extends e e' -> d_vars e' = d_vars e ++ vv ->
  In v (data_vars e) ->
  (forall d, In d (v_dims v) -> assoc d (d_dims e) <> None) ->
  stable fuel e vv (ref_names v ++ v_dims v) ->
  (forall w, In w vv -> ~ In (v_name v) (ref_names w)) ->
  In v (data_vars e') /\ view fuel e' v = view fuel e v.
Proof.
  intros (Hd & _ & Hg) Hv Hin Hdims Hst Hnr. split.
  - unfold data_vars in *. apply filter_In in Hin as [Hin Hdv]. apply filter_In. split.
    + rewrite Hv. apply in_or_app. left. exact Hin.
    + unfold is_data_var in *. apply andb_true_iff in Hdv as [H1 H2]. rewrite H2, andb_true_r.
      apply negb_true_iff. apply negb_true_iff in H1.
      destruct (smem (v_name v) (referenced e')) eqn:E; [|reflexivity].
      exfalso. apply smem_In in E. unfold referenced in E. rewrite Hv, map_app, concat_app in E.
      apply in_app_or in E as [E | E].
      * assert (smem (v_name v) (referenced e) = true) by (apply smem_In; exact E). congruence.
      * apply in_concat in E as [l [Hl Hx]]. apply in_map_iff in Hl as [w [<- Hw]].
        exact (Hnr w Hw Hx).
  - unfold view. rewrite Hg. f_equal; [f_equal|].
    + apply map_ext_in. intros d Hdin. destruct Hd as [dd Hd]. rewrite Hd.
      destruct (assoc d (d_dims e)) eqn:E; [|exfalso; exact (Hdims d Hdin E)].
      apply assoc_app_some. exact E.
    + apply (reach_frame fuel e e' vv); assumption.
Qed.

(* ------------------------------------------------------------------------ *)
(* 7. Sequences of appends                                                    *)
(* ------------------------------------------------------------------------ *)
Lemma extends_refl e : extends e e.
Proof. unfold extends. repeat split; try (exists []; symmetry; apply app_nil_r). Qed.

Lemma extends_trans a b c : extends a b -> extends b c -> extends a c.
Proof.
  intros ([d1 H1] & [v1 H2] & H3) ([d2 H4] & [v2 H5] & H6). unfold extends. repeat split.
  - exists (d1 ++ d2). rewrite H4, H1, app_assoc. reflexivity.
  - exists (v1 ++ v2). rewrite H5, H2, app_assoc. reflexivity.
  - congruence.
Qed.

Theorem iterated vr nc4 reread news : forall e, extends e (append_seq vr nc4 reread e news).
Proof.
  induction news as [|n r IH]; intro e; simpl; [apply extends_refl|].
  eapply extends_trans; [apply preserve | apply IH].
Qed.

(* a refused step in the middle of a sequence leaves the file as it was *)
Theorem iterated_refused_step vr nc4 reread e n r :
  refuse vr nc4 (reread e) n = true ->
  append_seq vr nc4 reread e (n :: r) = append_seq vr nc4 reread e r.
Proof.
  intro H. cbn [append_seq]. destruct (refuse_first vr nc4 e (reread e) n H) as (_ & _ & _ & E).
  rewrite E. reflexivity.
Qed.


(* ------------------------------------------------------------------------ *)
(* 8. formula_terms of an appended field (C17-fix-1), under the exact guard   *)
(* ------------------------------------------------------------------------ *)
Theorem formula_terms_written m f dims x av s r ko ov :
  f_ref f = Some r -> nth_error dims (r_owner r) = Some ko ->
  prop_of (c_props (k_c ko)) "standard_name" = Some (r_sn r) ->
  ft_terms f r ko av s <> [] ->
  lookup_nat (r_owner r) (x_dimvar x) = Some ov ->
  m_dry m = false -> w_err s = false -> fx_formula (m_var m) = true ->
  In ov (w_created s) ->                       (* the owning coordinate variable is new *)
  assoc ov (w_bnds s) <> Some ov ->
  forall v, In v (d_vars (w_file s)) -> v_name v = ov ->
  exists v', In v' (d_vars (w_file (write_formula m f dims x av s))) /\ v_name v' = ov /\
             In ("formula_terms", map fst (ft_terms f r ko av s)) (v_refs v').
Proof.
  intros Hr Hk Hsn Ht Hov Hdry Herr Hfx Hcr Hb v Hv Hname.
  unfold write_formula. rewrite Hr, Hk, Hsn. simpl option_eqb. rewrite String.eqb_refl.
  destruct (ft_terms f r ko av s) as [|t ts] eqn:Et; [congruence|]. rewrite Hov.
  replace (negb (m_post m) || fx_formula (m_var m)) with true by (rewrite Hfx, orb_true_r; reflexivity).
  set (T := t :: ts) in *.
  assert (S1 : exists v1, In v1 (d_vars (w_file (set_created_ref m ov "formula_terms" (map fst T) s))) /\
                          v_name v1 = ov /\ In ("formula_terms", map fst T) (v_refs v1) /\
                          w_err (set_created_ref m ov "formula_terms" (map fst T) s) = false /\
                          m_dry m = false).
  { unfold set_created_ref. rewrite Hdry, Herr. simpl orb.
    assert (E : smem ov (w_created s) = true) by (apply smem_In; exact Hcr). rewrite E. simpl.
    exists (add_ref "formula_terms" (map fst T) v). repeat split; auto.
    - apply in_map_iff. exists v. split; [|exact Hv].
      rewrite Hname, String.eqb_refl. reflexivity.
    - unfold add_ref; simpl. apply in_or_app. right. left. reflexivity. }
  destruct S1 as (v1 & Hin1 & Hn1 & Hr1 & He1 & _).
  destruct (assoc ov (w_bnds s)) as [bv|] eqn:Eb.
  - assert (Hne : bv <> ov) by (intro; subst; apply Hb; reflexivity).
    unfold set_created_ref at 1. rewrite Hdry, He1. simpl orb.
    destruct (smem bv _).
    + simpl. exists v1. repeat split; auto. apply in_map_iff. exists v1. split; [|exact Hin1].
      rewrite Hn1. destruct (String.eqb ov bv) eqn:E; [|reflexivity].
      apply String.eqb_eq in E. congruence.
    + exists v1. auto.
  - exists v1. auto.
Qed.

(* ------------------------------------------------------------------------ *)
(* 9. At least one new variable per appended field                            *)
(* ------------------------------------------------------------------------ *)
Lemma write_field_adds m f s :
  m_dry m = false -> w_err (write_field m f s) = false ->
  (S (nvars s) <= nvars (write_field m f s))%nat.
Proof.
  intros Hdry Herr. revert Herr. unfold write_field. destruct (add_csn f) as [dims bad].
  set (s0 := if bad then set_err s else s).
  assert (H0 : le s s0) by (unfold s0; destruct bad; [apply le_set_err | apply le_refl]).
  pose proof (le_write_axes m f dims (f_axes f) 0
                {| x_a2d := []; x_dimvar := []; x_coords := []; x_span := [] |} s0) as H1.
  destruct (write_axes m f dims 0 (f_axes f) _) as [x s1]. simpl in H1.
  pose proof (le_write_auxs m x (f_aux f) (x_coords x) s1) as H2.
  destruct (write_auxs m x (f_aux f) (x_coords x) s1) as [coords s2]. simpl in H2.
  pose proof (le_write_ancs m f x (f_anc f) 0 [] s2) as H3.
  destruct (write_ancs m f x (f_anc f) 0 [] s2) as [ancvars s3]. simpl in H3.
  pose proof (le_write_msrs m x (f_msr f) [] s3) as H4.
  destruct (write_msrs m x (f_msr f) [] s3) as [msrs s4]. simpl in H4.
  pose proof (le_write_formula m f dims x ancvars s4) as H5.
  with_name.
  assert (L : le s w).
  { eapply le_trans; [exact H0|]. eapply le_trans; [exact H1|]. eapply le_trans; [exact H2|].
    eapply le_trans; [exact H3|]. eapply le_trans; [exact H4|]. eapply le_trans; [exact H5|]. exact Hn. }
  destruct L as (_ & _ & Ln).
  simpl. unfold create_var. rewrite Hdry. simpl orb.
  destruct (w_err w) eqn:Ew; [intro; congruence|].
  destruct (smem _ _); [simpl; intro; discriminate|].
  intros _. unfold nvars in *. simpl. rewrite app_length. simpl. lia.
Qed.

Lemma write_fields_add m fs : forall s,
  m_dry m = false -> w_err (write_fields m fs s) = false ->
  (nvars s + length fs <= nvars (write_fields m fs s))%nat.
Proof.
  unfold write_fields. induction fs as [|f r IH]; intros s Hdry Herr; simpl in *; [lia|].
  assert (E : w_err (write_field m f s) = false).
  { destruct (w_err (write_field m f s)) eqn:E; [|reflexivity].
    pose proof (le_write_fields m r (write_field m f s)) as (_ & Hm & _).
    unfold write_fields in Hm. rewrite (Hm E) in Herr. discriminate. }
  pose proof (write_field_adds m f s Hdry E). specialize (IH _ Hdry Herr). lia.
Qed.

Theorem one_variable_per_field vr nc4 e orig new :
  snd (append vr nc4 e orig new) = Done ->
  (length (d_vars e) + length new <= length (d_vars (fst (append vr nc4 e orig new))))%nat.
Proof.
  unfold append, append_run. cbn [fst snd]. destruct (refuse vr nc4 orig new); [discriminate|].
  set (dry := {| m_dry := true; m_post := false; m_var := vr |}).
  set (post := {| m_dry := false; m_post := true; m_var := vr |}).
  set (s1 := log [EClose] (write_fields dry orig (log [EOpenR] (init e)))).
  assert (L1 : le (init e) s1).
  { unfold s1. eapply le_trans; [|le_same]. eapply le_trans; [|apply le_write_fields]. le_same. }
  destruct (w_err s1) eqn:E1; [rewrite E1; discriminate|].
  set (s2 := set_gl (compute_gl vr (d_gatts e) new) (log [EOpenA] s1)).
  destruct (w_err (log [EClose] (write_fields post new s2))) eqn:E2; [discriminate|].
  intros _. change (w_err (write_fields post new s2) = false) in E2.
  pose proof (write_fields_add post new s2 eq_refl E2) as H.
  destruct L1 as (_ & _ & Ln). unfold nvars in *.
  change (d_vars (w_file (log [EClose] (write_fields post new s2))))
    with (d_vars (w_file (write_fields post new s2))).
  change (d_vars (w_file s2)) with (d_vars (w_file s1)) in H.
  change (d_vars (w_file (init e))) with (d_vars e) in Ln. lia.
Qed.
