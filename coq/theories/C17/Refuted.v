(* C17 - witnesses against the append branch as it was at the pinned commit
   ([old_code]) and one against the repaired code that remains open (a
   formula-terms reference whose owning coordinate is shared with the file).
   Every witness is a closed term decided by vm_compute. *)
From CfdmV Require Import Common.Base Tables.AppendConstants C17.Model C17.Spec.
Open Scope string_scope.
Open Scope list_scope.

Definition mk_c (k : kind) (p : props) (sh : list Z) (t : Z) : content :=
  {| c_kind := k; c_props := p; c_shape := sh; c_tok := t; c_measure := ""; c_bnd := None |}.
Definition mk_k (nv : option string) (c : content) (ax : list nat) : cst :=
  {| k_ncvar := nv; k_c := c; k_axes := ax; k_bvar := None; k_bdim := None |}.
Definition mk_f (nv : string) (p : props) (gl : list (string * option string)) (axes : list axis)
           (dims ancs : list cst) (rf : option fref) : field :=
  {| f_ncvar := Some nv; f_props := p; f_gl := gl; f_groups := []; f_axes := axes; f_daxes := [0%nat];
     f_tok := 1; f_dim := dims; f_aux := []; f_anc := ancs; f_msr := []; f_ref := rf |}.

Definition empty : file := {| d_dims := []; d_vars := []; d_gatts := [("Conventions", "CF-1.11")] |}.

(* the z coordinate and a field over it carrying formula terms a(z) *)
Definition zc : content := mk_c KDim [("standard_name", "atmosphere_hybrid_height_coordinate")] [2%Z] 0.
Definition zk : cst := mk_k (Some "z") zc [0%nat].
Definition ak : cst := mk_k (Some "a") (mk_c KAnc [("units", "m")] [2%Z] 9) [0%nat].
Definition zref : fref := {| r_owner := 0; r_sn := "atmosphere_hybrid_height_coordinate"; r_csn := None;
                             r_terms := [("a", Some 0%nat)] |}.
Definition fz : field :=
  mk_f "ta" [("units", "K")] [] [{| a_size := 2; a_ncdim := None |}] [zk] [ak] (Some zref).

Definition refs_of (fl : file) (n : string) : list (string * list (string * string)) :=
  match lookup_var fl n with Some v => v_refs v | None => [] end.

(* F17a: in the append pass the formula_terms attribute was never written *)
Theorem formula_terms_old_refuted :
  refs_of (fst (append old_code true no_opts empty [] [fz])) "z" = [] /\
  refs_of (fst (append new_code true no_opts empty [] [fz])) "z" = [("formula_terms", [("a", "a")])] /\
  map v_name (data_vars (fst (append old_code true no_opts empty [] [fz]))) = ["a"; "ta"] /\
  map v_name (data_vars (fst (append new_code true no_opts empty [] [fz]))) = ["ta"].
Proof. vm_compute. repeat split. Qed.

(* F17c: a field whose featureType is not the file's was appended ... *)
Definition plain : field := mk_f "q" [("units", "1")] [("Conventions", None)] [] [] [] None.
Definition dsg : field :=
  mk_f "p" [("featureType", "timeSeries")] [("Conventions", None); ("featureType", None)] [] [] [] None.
Definition dsg_forced : field :=
  mk_f "p" [] [("featureType", Some "timeSeries")] [] [] [] None.

Theorem refusal_old_refuted :
  unsupported (orig_ft [plain]) [dsg] = true /\ refuse old_code true [plain] [dsg] = false /\
  refuse new_code true [plain] [dsg] = true.
Proof. vm_compute. repeat split. Qed.

(* ... while a field with the very featureType of the file was refused *)
Theorem refusal_old_over_refuted :
  unsupported (orig_ft [dsg]) [dsg_forced] = false /\ refuse old_code true [dsg] [dsg_forced] = true /\
  refuse new_code true [dsg] [dsg_forced] = false.
Proof. vm_compute. repeat split. Qed.

(* groups were refused for the NETCDF4 format only *)
Definition grouped : field :=
  {| f_ncvar := Some "q"; f_props := []; f_gl := []; f_groups := ["forecast"]; f_axes := []; f_daxes := [];
     f_tok := 1; f_dim := []; f_aux := []; f_anc := []; f_msr := []; f_ref := None |}.
Theorem refusal_groups_old_refuted :
  unsupported None [grouped] = true /\ refuse old_code false [plain] [grouped] = false /\
  refuse new_code false [plain] [grouped] = true.
Proof. vm_compute. repeat split. Qed.

(* F17d: a description-of-file-contents property that the file does not hold
   was neither written on the new variable nor held by the file *)
Definition commented : field := mk_f "q2" [("comment", "hello"); ("units", "1")] [] [] [] [] None.
Theorem props_kept_or_held_old_refuted :
  exists gatts fs f a x, In f fs /\ prop_of (f_props f) a = Some x /\
    ~ kept_or_held gatts (compute_gl old_code no_opts gatts fs) a x.
Proof.
  exists [("Conventions", "CF-1.11")], [commented], commented, "comment", "hello".
  split; [left; reflexivity|]. split; [reflexivity|].
  intros [H | H]; vm_compute in H; discriminate.
Qed.

(* C08-fix-6: a dimension coordinate without netCDF name or standard_name took
   the name of its dimension without checking that the name was free *)
Definition dc (t : Z) : cst := mk_k None (mk_c KDim [("units", "km")] [2%Z] t) [0%nat].
Definition fd (nv : string) (t : Z) : field :=
  mk_f nv [("units", "1")] [] [{| a_size := 2; a_ncdim := Some "d" |}] [dc t] [] None.
Definition file_d : file := fst (append new_code true no_opts empty [] [fd "q" 0]).

Theorem dimension_name_old_refuted :
  snd (append old_code true no_opts file_d [fd "q" 0] [fd "q" 1]) = Failed /\
  snd (append new_code true no_opts file_d [fd "q" 0] [fd "q" 1]) = Done /\
  map fst (d_dims (fst (append new_code true no_opts file_d [fd "q" 0] [fd "q" 1]))) = ["d"; "d_1"].
Proof. vm_compute. repeat split. Qed.

(* OPEN (repaired code too): the coordinate that owns the formula terms equals
   a coordinate already in the file, so its variable is shared and cannot be
   given the formula_terms attribute: the terms become extra data variables *)
Definition fz_plain : field :=
  mk_f "tb" [("units", "K")] [] [{| a_size := 2; a_ncdim := None |}] [zk] [] None.
Definition file_z : file := fst (append new_code true no_opts empty [] [fz_plain]).

Theorem formula_terms_on_shared_coordinate_refuted :
  snd (append new_code true no_opts file_z [fz_plain] [fz]) = Done /\
  refs_of (fst (append new_code true no_opts file_z [fz_plain] [fz])) "z" = [] /\
  map v_name (data_vars file_z) = ["tb"] /\
  map v_name (data_vars (fst (append new_code true no_opts file_z [fz_plain] [fz]))) = ["tb"; "a"; "ta"].
Proof. vm_compute. repeat split. Qed.

(* non-vacuity of the sharing theorems: the same request with a new z
   coordinate shares nothing, with the same one it shares z *)
Theorem sharing_example :
  map v_name (d_vars (fst (append new_code true no_opts file_z [fz_plain] [fz_plain]))) = ["z"; "tb"; "tb_1"] /\
  map v_dims (d_vars (fst (append new_code true no_opts file_z [fz_plain] [fz_plain]))) = [["z"]; ["z"]; ["z"]].
Proof. vm_compute. repeat split. Qed.

(* non-vacuity of the old-fields theorem: the re-read of file_z covers it *)
Theorem covers_example : covers new_code file_z [fz_plain] = true /\ map v_name (data_vars file_z) = ["tb"].
Proof. vm_compute. split; reflexivity. Qed.

(* the hypothesis is needed: were the re-read to present the data variable
   "tb" as the variable of an auxiliary coordinate, an appended field with an
   equal auxiliary coordinate would name "tb" in its coordinates attribute and
   "tb" would no longer be read as a field *)
Definition xaux (nv : option string) : cst := mk_k nv (mk_c KAux [("long_name", "x")] [2%Z] 5) [0%nat].
Definition f_lying : field :=
  {| f_ncvar := Some "other"; f_props := []; f_gl := []; f_groups := []; f_axes := [{| a_size := 2; a_ncdim := None |}];
     f_daxes := [0%nat]; f_tok := 2; f_dim := [zk]; f_aux := [xaux (Some "tb")]; f_anc := []; f_msr := []; f_ref := None |}.
Definition f_newaux : field :=
  {| f_ncvar := Some "new"; f_props := []; f_gl := []; f_groups := []; f_axes := [{| a_size := 2; a_ncdim := None |}];
     f_daxes := [0%nat]; f_tok := 3; f_dim := [zk]; f_aux := [xaux None]; f_anc := []; f_msr := []; f_ref := None |}.
Theorem old_fields_needs_covers_refuted :
  covers new_code file_z [f_lying] = false /\
  snd (append new_code true no_opts file_z [f_lying] [f_newaux]) = Done /\
  map v_name (data_vars file_z) = ["tb"] /\
  map v_name (data_vars (fst (append new_code true no_opts file_z [f_lying] [f_newaux]))) = ["new"].
Proof. vm_compute. repeat split. Qed.

(* C17-fix2-1 (found by the deepening pass): at /repo HEAD the dry run gave an
   axis without dimension coordinate the first registered dimension of the
   same size that is spanned by an equal construct - not necessarily the
   dimension the axis has in the file.  Here r lives on d_time in the file,
   but the dry run puts it on time (because of the equal auxiliary coordinate
   A), registers B under the dimensions [time] with the name B_d, and the
   appended field n(time) is given the coordinate variable B_d(d_time). *)
Definition cA : content := mk_c KAux [("long_name", "A")] [4%Z] 1.
Definition cB : content := mk_c KAux [("long_name", "B")] [4%Z] 2.
Definition bare (nv : string) (d : option string) (t : Z) (aux : list cst) : field :=
  {| f_ncvar := Some nv; f_props := []; f_gl := []; f_groups := []; f_axes := [{| a_size := 4; a_ncdim := d |}];
     f_daxes := [0%nat]; f_tok := t; f_dim := []; f_aux := aux; f_anc := []; f_msr := []; f_ref := None |}.
Definition mkv n d a r := {| v_name := n; v_dims := d; v_attrs := a; v_refs := r |}.
Definition file_two : file :=
  {| d_dims := [("time", 4%Z); ("d_time", 4%Z)];
     d_vars := [mkv "A_t" ["time"] [("long_name", "A")] []; mkv "q" ["time"] [] [("coordinates", [("", "A_t")])];
                mkv "B_d" ["d_time"] [("long_name", "B")] []; mkv "A_d" ["d_time"] [("long_name", "A")] [];
                mkv "r" ["d_time"] [] [("coordinates", [("", "B_d"); ("", "A_d")])]];
     d_gatts := [("Conventions", "CF-1.11")] |}.
Definition fq := bare "q" (Some "time") 1 [mk_k (Some "A_t") cA [0%nat]].
Definition fr := bare "r" (Some "d_time") 2 [mk_k (Some "B_d") cB [0%nat]; mk_k (Some "A_d") cA [0%nat]].
Definition fnew := bare "n" None 3 [mk_k None cA [0%nat]; mk_k None cB [0%nat]].

Definition dims_of_var (fl : file) (n : string) : list string :=
  match lookup_var fl n with Some v => v_dims v | None => [] end.

Theorem dry_run_dimension_refuted :
  let bad := fst (append head_code true no_opts file_two [fq; fr] [fnew]) in
  let good := fst (append new_code true no_opts file_two [fq; fr] [fnew]) in
  dims_of_var bad "n" = ["time"] /\ refs_of bad "n" = [("coordinates", [("", "A_t"); ("", "B_d")])] /\
  dims_of_var bad "B_d" = ["d_time"] /\
  dims_of_var good "n" = ["time"] /\ refs_of good "n" = [("coordinates", [("", "A_t"); ("", "auxiliary")])] /\
  dims_of_var good "auxiliary" = ["time"] /\
  covers head_code file_two [fq; fr] = false /\ covers new_code file_two [fq; fr] = true.
Proof. vm_compute. repeat split. Qed.

(* seeded C17-s6: the alias 'r+' passes the validation but is not resolved,
   so none of the tests for mode 'a' holds: no read pass, no refusal, one
   direct pass that writes the global attributes like a new file *)
Definition direct_run (vr : variant) (o : gopts) (e : file) (new : list field) : wst :=
  log [EClose] (write_fields (w_mode vr) new (write_globals (w_mode vr) o new (log [EOpenA] (init e)))).
Definition write_call_unresolved (vr : variant) (spelling : string) (netcdf4 : bool) (o : gopts) (e : file)
           (orig new : list field) : file :=
  if String.eqb spelling "r+" then w_file (direct_run vr o e new)
  else fst (write_call vr spelling netcdf4 o e orig new).

Definition file_acdd : file :=
  {| d_dims := d_dims file_z; d_vars := d_vars file_z; d_gatts := [("Conventions", "CF-1.11 ACDD-1.3"); ("comment", "c0")] |}.
Definition commented2 : field := mk_f "q2" [("comment", "hello"); ("units", "1")] [] [] [] [] None.

Theorem mode_alias_unresolved_refuted :
  d_gatts (write_call_unresolved new_code "r+" true no_opts file_acdd [fz_plain] [commented2])
    = [("Conventions", "CF-1.11"); ("comment", "hello")] /\
  d_gatts (fst (write_call new_code "r+" true no_opts file_acdd [fz_plain] [commented2])) = d_gatts file_acdd /\
  write_call_unresolved new_code "a" true no_opts file_acdd [fz_plain] [commented2]
    = fst (write_call new_code "r+" true no_opts file_acdd [fz_plain] [commented2]) /\
  (* a request that must be refused is carried out *)
  snd (write_call new_code "r+" true no_opts file_z [fz_plain] [dsg]) = CAppend Refused /\
  map v_name (d_vars (write_call_unresolved new_code "r+" true no_opts file_z [fz_plain] [dsg])) = ["z"; "tb"; "p"].
Proof. vm_compute. repeat split. Qed.

(* C17-fix3-2: a variable of the dataset that the re-read does not show (here:
   nothing at all is re-read) is written over without the repair - the call
   fails half-way on the name in use - and avoided with it *)
Theorem dataset_names_head3_refuted :
  snd (append head3_code true no_opts file_z [] [fz_plain]) = Failed /\
  snd (append new_code true no_opts file_z [] [fz_plain]) = Done /\
  map v_name (d_vars (fst (append new_code true no_opts file_z [] [fz_plain]))) = ["z"; "tb"; "z_1"; "tb_1"].
Proof. vm_compute. repeat split. Qed.

(* C17-fix3-4: a dataset (of any origin) with a dimension "time" that has no
   coordinate variable and a scalar coordinate variable of the same name.
   Without the repair the dry run, having registered the dimension, renames
   the scalar variable "time_1" - a name the dataset does not have - and an
   appended field with an equal scalar coordinate refers to "time_1". *)
Definition tsc : cst := mk_k (Some "time") (mk_c KDim [("standard_name", "time")] [1%Z] 7) [1%nat].
Definition f_ts (nv : string) (t : Z) : field :=
  {| f_ncvar := Some nv; f_props := []; f_gl := []; f_groups := [];
     f_axes := [{| a_size := 4; a_ncdim := Some "time" |}; {| a_size := 1; a_ncdim := None |}];
     f_daxes := [0%nat]; f_tok := t; f_dim := [tsc]; f_aux := []; f_anc := []; f_msr := []; f_ref := None |}.
Definition file_ts : file :=
  {| d_dims := [("time", 4%Z)];
     d_vars := [mkv "time" [] [("standard_name", "time")] []; mkv "q" ["time"] [] [("coordinates", [("", "time")])]];
     d_gatts := [("Conventions", "CF-1.11")] |}.
Definition renaming_code := {| fx_formula := true; fx_global := true; fx_ft := true; fx_dimname := true;
                               fx_dryname := true; fx_names := true; fx_norename := false |}.

Theorem dry_run_rename_refuted :
  refs_of (fst (append renaming_code true no_opts file_ts [f_ts "q" 1] [f_ts "r" 2])) "r" = [("coordinates", [("", "time_1")])] /\
  lookup_var (fst (append renaming_code true no_opts file_ts [f_ts "q" 1] [f_ts "r" 2])) "time_1" = None /\
  refs_of (fst (append new_code true no_opts file_ts [f_ts "q" 1] [f_ts "r" 2])) "r" = [("coordinates", [("", "time")])] /\
  map v_name (d_vars (fst (append new_code true no_opts file_ts [f_ts "q" 1] [f_ts "r" 2]))) = ["time"; "q"; "r"].
Proof. vm_compute. repeat split. Qed.
