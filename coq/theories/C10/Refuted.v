(* C10 - superseded or seeded variants of the code do NOT satisfy the property
   theorems.  Each witness was replayed against the implementation
   (harness/props/c10.py corpus; seeded changes in the deepening pass). *)
From CfdmV Require Import Common.Base C10.Model C10.Spec C10.Lemmas C10.Fs C10.FsLemmas C10.Ident.
Open Scope Z_scope.

Ltac splits := repeat match goal with |- _ /\ _ => split end.

Definition fs1 : fsys := mkFS [(7, [1])] [([1], NFile 100 O)].
Definition fs2 : fsys := mkFS [(7, [1]); (8, [2])] [([1], NFile 100 O); ([2], NLink [1])].

(* F10a: g = Field(); g.set_data(f.data) with f read lazily from file 7;
   write(g, 7) replaces file 7 although g needs it. *)
Theorem C10_old_guard_transplant_refuted :
  exists e0 e f fs',
    Forall field_inv e0 /\ reach any_op e0 e /\ In f e /\ needs f 7 /\
    write_model guard_old fs1 (mkQ [f] [] (tg fs1 7) None) (mkW MW true FNone) 101 = (fs', None) /\
    content fs' (real fs1 7) <> content fs1 (real fs1 7).
Proof.
  exists [w_field], w_env, (mkF [] (Some (Plain (File [7]))) []). eexists.
  splits.
  - constructor; [|constructor]. split; simpl; [apply incl_refl|constructor].
  - eapply reach_step with (e := step [w_field] ONewField) (o := OSetData 1 0 SelField);
      [|reflexivity|reflexivity].
    eapply reach_step with (e := [w_field]) (o := ONewField); [constructor|reflexivity|reflexivity].
  - vm_compute. right. left. reflexivity.
  - exists [7]. split; [|left; reflexivity]. eapply fl_data; [reflexivity|constructor].
  - vm_compute. reflexivity.
  - vm_compute. discriminate.
Qed.

(* F10b: f read through the symbolic link 8 -> 7, then write(f, 7). *)
Theorem C10_old_guard_symlink_refuted :
  exists f fs',
    field_inv f /\ needs f 8 /\
    write_model guard_old fs2 (mkQ [f] [] (tg fs2 7) None) (mkW MW true FNone) 101 = (fs', None) /\
    content fs' (real fs2 8) <> content fs2 (real fs2 8).
Proof.
  exists (mkF [8] (Some (Plain (File [8]))) []). eexists. splits.
  - split; simpl; [apply incl_refl|constructor].
  - exists [8]. split; [|left; reflexivity]. eapply fl_data; [reflexivity|constructor].
  - vm_compute. reflexivity.
  - vm_compute. discriminate.
Qed.

(* F10c: get_filenames() before the repair omits the files of bounds and of
   count / index / list variables. *)
Theorem C10_old_files_incomplete_refuted :
  exists f x, needs f x /\ ~ In x (field_files_old f).
Proof.
  exists ex_field, 7. split.
  - apply files_complete. vm_compute. left. reflexivity.
  - vm_compute. tauto.
Qed.

(* what it did return was needed *)
Theorem C10_old_files_sound : forall f x, In x (field_files_old f) -> needs f x.
Proof. exact files_old_sound. Qed.

(* Seeded change 1: real paths compared only when the target or the consulted
   name is itself a symbolic link.  Read data/x.nc, write alias/x.nc with
   alias -> data: the source file is replaced. *)
Theorem C10_final_link_only_guard_refuted :
  exists fs' r,
    tree_wf (nodes ex_fs) /\ needs (ex_field_n 10) 10 /\ is_regular (nodes ex_fs) (real ex_fs 10) = true /\
    write_model guard_final_link_only ex_fs (ex_q 11) (mkW MW true FNone) 1000 = (fs', r) /\
    content fs' (real ex_fs 10) <> content ex_fs (real ex_fs 10).
Proof.
  do 2 eexists. splits.
  - exact ex_store_wf.
  - apply files_complete. vm_compute. left. reflexivity.
  - reflexivity.
  - vm_compute. reflexivity.
  - vm_compute. discriminate.
Qed.

(* Before fix2-2: the external file was checked against the derived external
   fields only; a construct holding transplanted lazy data of x.nc and a new
   external cell measure, written with external=alias/x.nc, loses x.nc. *)
Theorem C10_external_unchecked_refuted :
  exists fs' r,
    In ex_g [ex_g] /\ needs ex_g 10 /\
    write_gen false true guard ex_fs (mkQ [ex_g] [ex_ef] (tg ex_fs 14) (Some (tg ex_fs 11)))
              (mkW MW true FNone) 1000 = (fs', r) /\
    content fs' (real ex_fs 10) <> content ex_fs (real ex_fs 10).
Proof.
  do 2 eexists. splits.
  - left. reflexivity.
  - exists [10]. split; [|left; reflexivity]. eapply fl_data; [reflexivity|constructor].
  - vm_compute. reflexivity.
  - vm_compute. discriminate.
Qed.

(* Seeded change 2: overwrite no longer forwarded to the write of the
   external file: with overwrite disabled an existing external file is replaced. *)
Theorem C10_overwrite_not_forwarded_refuted :
  exists fs' r K,
    is_regular (nodes ex_fs) K = true /\
    write_gen true false guard ex_fs (mkQ [ex_h] [ex_ef] (tg ex_fs 14) (Some (tg ex_fs 15)))
              (mkW MW false FNone) 1000 = (fs', r) /\
    content fs' K <> content ex_fs K.
Proof.
  exists (fst (write_gen true false guard ex_fs (mkQ [ex_h] [ex_ef] (tg ex_fs 14) (Some (tg ex_fs 15)))
              (mkW MW false FNone) 1000)).
  eexists. exists [1; 2; 8]. splits.
  - reflexivity.
  - vm_compute. reflexivity.
  - vm_compute. discriminate.
Qed.

(* Seeded change 3: the copy deferred until after conform_geometry_variables. *)
Theorem C10_deferred_copy_refuted :
  exists h', write_all (writer_prog_deferred_copy true []) ex_heap 2%nat [ex_obj] = (h', 4%nat, false)
             /\ hget h' 1%nat <> hget ex_heap 1%nat.
Proof. exact deferred_copy_refuted. Qed.

Theorem C10_deferred_copy_not_copy_first : copy_first (writer_prog_deferred_copy true []) = false.
Proof. reflexivity. Qed.

(* Second round, seeded change: GatheredArray.__init__ shares the list variable of its source,
   so the writer's copy holds the caller's List object and nc_set_variable renames it. *)
Theorem C10_shared_list_refuted :
  exists h', write_all_d list_shared (writer_prog true [ISet 0 0 6]) ex_heap2 1%nat [ex_obj2] = (h', 1%nat, false)
             /\ hget h' 0%nat <> hget ex_heap2 0%nat.
Proof. exact shared_list_refuted. Qed.

(* Second round, seeded change: the overwrite=False existence test made before the name is
   expanded ($V/e.nc read as a literal path that does not exist): the existing file is replaced. *)
Theorem C10_unexpanded_test_refuted :
  exists fs' r K,
    is_regular (nodes ex_fs) K = true /\
    write_given_test_unexpanded (fun _ => [99; 8]) ex_env guard ex_fs (ex_gq [RVar 1; RLit 8])
                                (mkW MW false FNone) 1000 = (fs', r) /\
    content fs' K <> content ex_fs K.
Proof.
  exists (fst (write_given_test_unexpanded (fun _ => [99; 8]) ex_env guard ex_fs (ex_gq [RVar 1; RLit 8])
              (mkW MW false FNone) 1000)).
  eexists. exists [1; 2; 8]. split; [reflexivity|]. split.
  - vm_compute. reflexivity.
  - vm_compute. discriminate.
Qed.
