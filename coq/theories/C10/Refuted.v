(* C10 - the guard of NetCDFWrite.file_open and get_filenames() as they stood
   before the repair C10-fix-1 do NOT satisfy C10_guard_sound /
   C10_files_complete.  Each witness was replayed against the implementation
   (harness/props/c10.py, corpus cases F10a/F10b/F10c). *)
From CfdmV Require Import Common.Base C10.Model C10.Spec C10.Lemmas.
Open Scope Z_scope.

Ltac splits := repeat match goal with |- _ /\ _ => split end.

(* F10a: g = Field(); g.set_data(f.data) with f read lazily from file 7;
   write(g, 7) removes file 7 although g needs it. *)
Theorem C10_old_guard_transplant_refuted :
  exists e0 e f fs fs' r,
    Forall field_inv e0 /\ reach any_op e0 e /\ In f e /\ needs f 7 /\ wf_fs fs /\
    write_model guard_old fs [f] 7 (mkW MW true FNone) 101 = (fs', r) /\
    content fs' (real fs 7) <> content fs (real fs 7).
Proof.
  exists [w_field], w_env, (mkF [] (Some (Plain (File [7]))) []),
         (mkFS [(7, (100, O))] []), (mkFS [(7, (101, O))] []), None.
  splits.
  - constructor; [|constructor]. split; simpl; [apply incl_refl|constructor].
  - eapply reach_step with (e := step [w_field] ONewField) (o := OSetData 1 0 SelField);
      [|reflexivity|reflexivity].
    eapply reach_step with (e := [w_field]) (o := ONewField); [constructor|reflexivity|reflexivity].
  - vm_compute. right. left. reflexivity.
  - exists [7]. split; [|left; reflexivity]. eapply fl_data; [reflexivity|constructor].
  - intros l t. simpl. discriminate.
  - reflexivity.
  - vm_compute. discriminate.
Qed.

(* F10b: f read through the symbolic link 8 -> 7 (so every recorded name is
   8), then write(f, 7): the names differ, the file is the same. *)
Theorem C10_old_guard_symlink_refuted :
  exists f fs fs' r,
    field_inv f /\ needs f 8 /\ wf_fs fs /\
    write_model guard_old fs [f] 7 (mkW MW true FNone) 101 = (fs', r) /\
    content fs' (real fs 8) <> content fs (real fs 8).
Proof.
  exists (mkF [8] (Some (Plain (File [8]))) []),
         (mkFS [(7, (100, O))] [(8, 7)]), (mkFS [(7, (101, O))] [(8, 7)]), None.
  splits.
  - split; simpl; [apply incl_refl|constructor].
  - exists [8]. split; [|left; reflexivity]. eapply fl_data; [reflexivity|constructor].
  - intros l t. simpl. destruct (Z.eqb l 8); [|discriminate]. intro H. inversion H. reflexivity.
  - reflexivity.
  - vm_compute. discriminate.
Qed.

(* F10c: get_filenames() before the repair omits the files of bounds and of
   count / index / list variables. *)
Theorem C10_old_files_incomplete_refuted :
  exists f x, needs f x /\ ~ In x (field_files_old f).
Proof.
  exists ex_field, 7. split.
  - apply files_complete. vm_compute. left. reflexivity.
  - vm_compute. tauto.
Qed.

(* what it did return was needed *)
Theorem C10_old_files_sound : forall f x, In x (field_files_old f) -> needs f x.
Proof. exact files_old_sound. Qed.
