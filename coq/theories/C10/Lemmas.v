(* C10 - proofs. *)
From CfdmV Require Import Common.Base C10.Model C10.Spec.
Open Scope Z_scope.

Ltac splits := repeat match goal with |- _ /\ _ => split end.

(* ---- small list facts ------------------------------------------------------ *)
Lemma existsb_Zeqb_In x l : existsb (Z.eqb x) l = true <-> In x l.
Proof.
  rewrite existsb_exists. split.
  - intros (y & Hy & E). apply Z.eqb_eq in E. subst. exact Hy.
  - intro H. exists x. split; [exact H|apply Z.eqb_refl].
Qed.

Lemma subsetb_incl a b : subsetb a b = true -> incl a b.
Proof.
  unfold subsetb. rewrite forallb_forall. intros H x Hx.
  apply existsb_Zeqb_In. apply H. exact Hx.
Qed.

Lemma seteqb_incl a b : seteqb a b = true -> incl a b /\ incl b a.
Proof.
  unfold seteqb. intro H. apply andb_true_iff in H as [H1 H2].
  split; apply subsetb_incl; assumption.
Qed.

Lemma zlist_eqb_eq a b : zlist_eqb a b = true -> a = b.
Proof.
  unfold zlist_eqb. intro H. apply (list_eqb_eq Z.eqb); [|exact H].
  intros x y. apply Z.eqb_eq.
Qed.

Lemma incl_flat_map {A} (F G : A -> list fname) l :
  (forall x, In x l -> incl (F x) (G x)) -> incl (flat_map F l) (flat_map G l).
Proof.
  intros H y Hy. apply in_flat_map in Hy as (x & Hx & Hy).
  apply in_flat_map. exists x. split; [exact Hx|]. apply (H x Hx). exact Hy.
Qed.

Lemma kassoc_In {A} k (l : list (string * A)) v : kassoc k l = Some v -> In (k, v) l.
Proof.
  induction l as [|[k' v'] r IH]; simpl; [discriminate|].
  destruct (String.eqb k k') eqn:E.
  - intro H. inversion H; subst. apply String.eqb_eq in E. subst. left. reflexivity.
  - intro H. right. apply IH. exact H.
Qed.

Lemma kremove_incl {A} k (l : list (string * A)) : incl (kremove k l) l.
Proof.
  induction l as [|[k' v'] r IH]; simpl; [apply incl_refl|].
  destruct (String.eqb k k').
  - apply incl_tl. exact IH.
  - apply incl_cons; [left; reflexivity|apply incl_tl; exact IH].
Qed.

Lemma Forall_kremove {A} (P : string * A -> Prop) k l : Forall P l -> Forall P (kremove k l).
Proof.
  intro H. apply Forall_forall. intros x Hx. apply kremove_incl in Hx.
  revert x Hx. apply Forall_forall. exact H.
Qed.

Lemma Forall_kupdate {A} (P : A -> Prop) k (g : A -> A) (l : list (string * A)) :
  (forall v, P v -> P (g v)) ->
  Forall (fun kc => P (snd kc)) l -> Forall (fun kc => P (snd kc)) (kupdate k g l).
Proof.
  intros Hg H. induction H as [|[k' v] r Hv Hr IH]; simpl; [constructor|].
  destruct (String.eqb k k'); constructor; simpl; auto.
Qed.

Lemma Forall_set_nth {A} (P : A -> Prop) n x (l : list A) :
  P x -> Forall P l -> Forall P (set_nth n x l).
Proof.
  intros Hx H. revert n. induction H as [|y r Hy Hr IH]; intros [|n]; simpl;
    constructor; auto.
Qed.

Lemma In_set_nth {A} n (x : A) l y : In y (set_nth n x l) -> y = x \/ In y l.
Proof.
  revert n. induction l as [|z r IH]; intros [|n]; simpl; try tauto.
  - intros [H|H]; auto.
  - intros [H|H]; auto. destruct (IH n H); auto.
Qed.

Lemma Forall_nth_error {A} (P : A -> Prop) l n x :
  Forall P l -> nth_error l n = Some x -> P x.
Proof.
  intros H E. apply nth_error_In in E. revert x E. apply Forall_forall. exact H.
Qed.

Lemma Forall_snoc {A} (P : A -> Prop) l x : Forall P l -> P x -> Forall P (l ++ [x]).
Proof. intros. apply Forall_app. split; [assumption|constructor; [assumption|constructor]]. Qed.

(* ---- get_filenames after the repair is complete --------------------------- *)
Lemma arr_files_leaf a x :
  In x (arr_files a) <-> exists fs, arr_leaf a (File fs) /\ In x fs.
Proof.
  destruct a as [l|i ancs]; simpl.
  - split.
    + destruct l as [|fs]; simpl; [tauto|]. intro H. exists fs. split; [constructor|exact H].
    + intros (fs & Hl & Hx). inversion Hl; subst. exact Hx.
  - rewrite in_app_iff, in_flat_map. split.
    + intros [H|(a & Ha & H)].
      * destruct i as [|fs]; simpl in H; [tauto|]. exists fs. split; [constructor|exact H].
      * destruct (a_leaf a) as [|fs] eqn:E; simpl in H; [tauto|].
        exists fs. split; [|exact H]. rewrite <- E. constructor. exact Ha.
    + intros (fs & Hl & Hx). inversion Hl; subst.
      * left. exact Hx.
      * right. match goal with H : In ?y ancs |- _ => exists y; split; [exact H|] end.
        match goal with H : a_leaf _ = File fs |- _ => rewrite H end. exact Hx.
Qed.

Lemma pvar_files_leaf p x :
  In x (pvar_files arr_files p) <->
  exists b a fs, p = Some b /\ p_data b = Some a /\ arr_leaf a (File fs) /\ In x fs.
Proof.
  destruct p as [b|]; simpl.
  - destruct (p_data b) as [a|] eqn:E; simpl.
    + rewrite arr_files_leaf. split.
      * intros (fs & H1 & H2). exists b, a, fs. auto.
      * intros (b' & a' & fs & H1 & H2 & H3 & H4). inversion H1; subst.
        rewrite E in H2. inversion H2; subst. exists fs. auto.
    + split; [tauto|]. intros (b' & a' & fs & H1 & H2 & _). inversion H1; subst. congruence.
  - split; [tauto|]. intros (b' & a' & fs & H1 & _). discriminate.
Qed.

Lemma cons_files_leaf c x :
  In x (cons_files c) <-> exists fs, cons_leaf c (File fs) /\ In x fs.
Proof.
  unfold cons_files. rewrite !in_app_iff, !pvar_files_leaf. split.
  - intros [H|[H|H]].
    + destruct (c_data c) as [a|] eqn:E; simpl in H; [|tauto].
      apply arr_files_leaf in H as (fs & H1 & H2). exists fs. split; [|exact H2].
      eapply cl_data; eauto.
    + destruct H as (b & a & fs & H1 & H2 & H3 & H4). exists fs. split; [|exact H4].
      eapply cl_bounds; eauto.
    + destruct H as (b & a & fs & H1 & H2 & H3 & H4). exists fs. split; [|exact H4].
      eapply cl_ring; eauto.
  - intros (fs & Hl & Hx). inversion Hl; subst.
    + left. rewrite H. simpl. apply arr_files_leaf. exists fs. auto.
    + right. left. exists b, a, fs. auto.
    + right. right. exists b, a, fs. auto.
Qed.

Lemma files_complete f x : In x (field_files f) <-> needs f x.
Proof.
  unfold field_files, needs. rewrite in_app_iff, in_flat_map. split.
  - intros [H|([k c] & Hc & H)].
    + destruct (f_data f) as [a|] eqn:E; simpl in H; [|tauto].
      apply arr_files_leaf in H as (fs & H1 & H2). exists fs. split; [|exact H2].
      eapply fl_data; eauto.
    + simpl in H. apply cons_files_leaf in H as (fs & H1 & H2). exists fs. split; [|exact H2].
      eapply fl_cons; eauto.
  - intros (fs & Hl & Hx). inversion Hl; subst.
    + left. rewrite H. simpl. apply arr_files_leaf. exists fs. auto.
    + right. exists (k, c). split; [assumption|]. simpl. apply cons_files_leaf. exists fs. auto.
Qed.

(* what get_filenames returned before the repair is needed, but not all of it *)
Lemma arr_files_old_incl a : incl (arr_files_old a) (arr_files a).
Proof. destruct a; simpl; [apply incl_refl|apply incl_appl, incl_refl]. Qed.

Lemma files_old_sound f x : In x (field_files_old f) -> needs f x.
Proof.
  intro H. apply files_complete. revert x H. unfold field_files_old, field_files.
  apply incl_app_app.
  - destruct (f_data f); simpl; [apply arr_files_old_incl|apply incl_refl].
  - apply incl_flat_map. intros [k c] _. simpl. unfold cons_files_old, cons_files.
    apply incl_appl. destruct (c_data c); simpl; [apply arr_files_old_incl|apply incl_refl].
Qed.

(* ---- histories: recorded original names keep covering the needed files ----- *)
Lemma leaf_refb_incl o p : leaf_refb o p = true -> incl (leaf_files o) (leaf_files p).
Proof.
  destruct o as [|a], p as [|b]; simpl; intro H; try (intros x []); try discriminate.
  apply zlist_eqb_eq in H. subst. apply incl_refl.
Qed.

Lemma ancs_refb_incl a b :
  list_eqb anc_refb a b = true ->
  incl (flat_map (fun a => leaf_files (a_leaf a)) a) (flat_map (fun a => leaf_files (a_leaf a)) b).
Proof.
  revert b. induction a as [|x r IH]; intros [|y r2]; simpl; intro H;
    try discriminate; [intros z []|].
  apply andb_true_iff in H as [H1 H2]. unfold anc_refb in H1.
  apply andb_true_iff in H1 as [_ H1]. apply incl_app_app; [apply leaf_refb_incl; exact H1|].
  apply IH. exact H2.
Qed.

Lemma arr_refb_incl o p : arr_refb o p = true -> incl (arr_files o) (arr_files p).
Proof.
  destruct o as [l|i a], p as [l'|i' a']; simpl.
  - destruct l; [intros _ x []|]. apply leaf_refb_incl.
  - destruct l; [intros _ x []|discriminate].
  - discriminate.
  - intro H. apply andb_true_iff in H as [H1 H2]. apply incl_app_app;
      [apply leaf_refb_incl; exact H1|apply ancs_refb_incl; exact H2].
Qed.

Lemma odat_refb_incl o p : odat_refb o p = true -> incl (odat_files arr_files o) (odat_files arr_files p).
Proof.
  destruct o, p; simpl; try discriminate; [apply arr_refb_incl|intros _ x []].
Qed.

Lemma pvar_refb_incl o p :
  pvar_refb o p = true ->
  incl (pvar_files arr_files o) (pvar_files arr_files p) /\ incl (pvar_orig p) (pvar_orig o)
  /\ incl (pvar_orig o) (pvar_orig p).
Proof.
  destruct o as [a|], p as [b|]; simpl; try discriminate.
  - intro H. apply andb_true_iff in H as [H1 H2]. apply seteqb_incl in H1 as [H1 H1'].
    splits; auto. apply odat_refb_incl. exact H2.
  - intros _. splits; intros x [].
Qed.

Lemma cons_refb_inv o p : cons_refb o p = true -> cons_inv p -> cons_inv o.
Proof.
  unfold cons_refb, cons_inv. intros H (I1 & I2 & I3).
  apply andb_true_iff in H as [H H4]. apply andb_true_iff in H as [H H3].
  apply andb_true_iff in H as [H1 H2].
  apply seteqb_incl in H1 as [H1 H1']. apply odat_refb_incl in H2.
  apply pvar_refb_incl in H3 as (B1 & B2 & B3). apply pvar_refb_incl in H4 as (R1 & R2 & R3).
  splits.
  - eapply incl_tran; [exact H2|]. eapply incl_tran; [exact I1|exact H1'].
  - eapply incl_tran; [exact B1|]. eapply incl_tran; [exact I2|exact B2].
  - eapply incl_tran; [exact R1|]. eapply incl_tran; [exact I3|exact R2].
Qed.

Lemma cons_list_refb_inv o p :
  cons_list_refb o p = true ->
  Forall (fun kc => cons_inv (snd kc)) p -> Forall (fun kc => cons_inv (snd kc)) o.
Proof.
  unfold cons_list_refb. intros H F. apply andb_true_iff in H as [_ H].
  rewrite forallb_forall in H. apply Forall_forall. intros [k c] Hkc.
  specialize (H _ Hkc). simpl in H. destruct (kassoc k p) as [c'|] eqn:K; [|discriminate].
  apply kassoc_In in K. rewrite Forall_forall in F. specialize (F _ K). simpl in *.
  eapply cons_refb_inv; eauto.
Qed.

Lemma field_refb_inv o p : field_refb o p = true -> field_inv p -> field_inv o.
Proof.
  unfold field_refb, field_inv. intros H (I1 & I2).
  apply andb_true_iff in H as [H H3]. apply andb_true_iff in H as [H1 H2].
  apply seteqb_incl in H1 as [H1 H1']. apply odat_refb_incl in H2. split.
  - eapply incl_tran; [exact H2|]. eapply incl_tran; [exact I1|exact H1'].
  - eapply cons_list_refb_inv; eauto.
Qed.

Lemma env_refb_inv o p : env_refb o p = true -> Forall field_inv p -> Forall field_inv o.
Proof.
  unfold env_refb. revert p. induction o as [|x r IH]; intros [|y r2]; simpl; intros H F;
    try discriminate; [constructor|].
  apply andb_true_iff in H as [H1 H2]. inversion F; subst. constructor.
  - eapply field_refb_inv; eauto.
  - eapply IH; eauto.
Qed.

Lemma cons_inv_of f k c : field_inv f -> kassoc k (f_cons f) = Some c -> cons_inv c.
Proof.
  intros [_ F] H. apply kassoc_In in H. rewrite Forall_forall in F. apply (F (k, c) H).
Qed.

Lemma step_inv e o : no_transplant o = true -> Forall field_inv e -> Forall field_inv (step e o).
Proof.
  intros NT F. destruct o; simpl in *; try discriminate.
  - (* OCopy *) destruct (nth_error e i) eqn:E; [|exact F].
    apply Forall_snoc; [exact F|]. eapply Forall_nth_error; eauto.
  - (* OGetDomain *) destruct (nth_error e i) eqn:E; [|exact F].
    apply Forall_snoc; [exact F|]. pose proof (Forall_nth_error _ _ _ _ F E) as [_ I].
    split; simpl; [intros x []|]. apply Forall_forall. intros x Hx. apply filter_In in Hx as [Hx _].
    revert x Hx. apply Forall_forall. exact I.
  - (* OFieldSource *) destruct (nth_error e i) eqn:E; [|exact F].
    apply Forall_snoc; [exact F|]. eapply Forall_nth_error; eauto.
  - (* OConvert *) destruct (nth_error e i) as [f|] eqn:E; [|exact F].
    unfold convert. destruct (kassoc k (f_cons f)) as [c|] eqn:K; [|exact F].
    apply Forall_snoc; [exact F|]. pose proof (Forall_nth_error _ _ _ _ F E) as I.
    pose proof (cons_inv_of _ _ _ I K) as (C1 & _). split; simpl; [exact C1|].
    destruct I as [_ I]. apply Forall_forall. intros x Hx. apply filter_In in Hx as [Hx _].
    revert x Hx. apply Forall_forall. exact I.
  - (* ONewField *) apply Forall_snoc; [exact F|]. split; simpl; [intros x []|constructor].
  - (* ODelData *) destruct (nth_error e i) as [f|] eqn:E; [|exact F].
    apply Forall_set_nth; [|exact F]. pose proof (Forall_nth_error _ _ _ _ F E) as [_ I].
    split; simpl; [intros x []|exact I].
  - (* ODelCons *) destruct (nth_error e i) as [f|] eqn:E; [|exact F].
    apply Forall_set_nth; [|exact F]. pose proof (Forall_nth_error _ _ _ _ F E) as [I1 I].
    split; simpl; [exact I1|apply Forall_kremove; exact I].
  - (* OSetCons *) destruct (nth_error e dst) as [f|] eqn:E; [|exact F].
    destruct (nth_error e src) as [g|] eqn:E2; [|exact F].
    destruct (kassoc k (f_cons g)) as [c|] eqn:K; [|exact F].
    apply Forall_set_nth; [|exact F]. pose proof (Forall_nth_error _ _ _ _ F E) as [I1 I].
    pose proof (cons_inv_of _ _ _ (Forall_nth_error _ _ _ _ F E2) K) as C.
    split; simpl; [exact I1|]. apply Forall_snoc; [apply Forall_kremove; exact I|exact C].
  - (* ODelBounds *) destruct (nth_error e i) as [f|] eqn:E; [|exact F].
    apply Forall_set_nth; [|exact F]. pose proof (Forall_nth_error _ _ _ _ F E) as [I1 I].
    split; simpl; [exact I1|]. apply (Forall_kupdate cons_inv); [|exact I].
    intros c (C1 & C2 & C3). unfold cons_inv. simpl. splits; auto. intros x [].
  - (* OSetBounds *) destruct (nth_error e dst) as [f|] eqn:E; [|exact F].
    destruct (nth_error e src) as [g|] eqn:E2; [|exact F].
    destruct (kassoc k' (f_cons g)) as [c'|] eqn:K; simpl; [|exact F].
    destruct (c_bounds c') as [b|] eqn:B; [|exact F].
    apply Forall_set_nth; [|exact F]. pose proof (Forall_nth_error _ _ _ _ F E) as [I1 I].
    pose proof (cons_inv_of _ _ _ (Forall_nth_error _ _ _ _ F E2) K) as (_ & C2 & _).
    rewrite B in C2. split; simpl; [exact I1|]. apply (Forall_kupdate cons_inv); [|exact I].
    intros c (C1 & _ & C3). unfold cons_inv. simpl. splits; auto.
  - (* ONewCons *) destruct (nth_error e i) as [f|] eqn:E; [|exact F].
    apply Forall_set_nth; [|exact F]. pose proof (Forall_nth_error _ _ _ _ F E) as [I1 I].
    split; simpl; [exact I1|]. apply Forall_snoc; [apply Forall_kremove; exact I|].
    unfold cons_inv. simpl. splits; intros x [].
  - (* OTouch *) exact F.
Qed.

Lemma reach_inv e0 e :
  reach no_transplant e0 e -> Forall field_inv e0 -> Forall field_inv e.
Proof.
  intros R I. induction R as [|e o e' R IH P H]; [exact I|].
  eapply env_refb_inv; [exact H|]. apply step_inv; auto.
Qed.

Lemma field_inv_covers f : field_inv f -> incl (field_files f) (field_orig f).
Proof.
  intros [I1 I2]. unfold field_files, field_orig. apply incl_app_app; [exact I1|].
  apply incl_flat_map. intros [k c] Hc. simpl. rewrite Forall_forall in I2.
  destruct (I2 _ Hc) as (C1 & C2 & C3). simpl in *. unfold cons_files, cons_orig.
  apply incl_app_app; [exact C1|apply incl_app_app; assumption].
Qed.

(* over every history without a data transplant, the recorded original file
   names of a construct cover the files its data still need *)
Lemma orig_covers_needs e0 e f x :
  Forall field_inv e0 -> reach no_transplant e0 e -> In f e -> needs f x -> In x (field_orig f).
Proof.
  intros I R Hf Hn. pose proof (reach_inv _ _ R I) as F. rewrite Forall_forall in F.
  apply (field_inv_covers f (F f Hf)). apply files_complete. exact Hn.
Qed.

(* with a transplant it is not: data moved into a fresh field *)
Definition w_field : field :=
  mkF [7] (Some (Plain (File [7]))) [].
Definition w_hist : list op := [ONewField; OSetData 1 0 SelField].
Definition w_env : list field := fold_left step w_hist [w_field].

Lemma orig_covers_needs_transplant_refuted :
  exists e0 e f x, Forall field_inv e0 /\ reach any_op e0 e /\ In f e /\ needs f x /\
                   ~ In x (field_orig f).
Proof.
  exists [w_field], w_env, (mkF [] (Some (Plain (File [7]))) []), 7. splits.
  - constructor; [|constructor]. split; simpl; [apply incl_refl|constructor].
  - eapply reach_step with (e := step [w_field] ONewField) (o := OSetData 1 0 SelField);
      [|reflexivity|reflexivity].
    eapply reach_step with (e := [w_field]) (o := ONewField); [constructor|reflexivity|reflexivity].
  - vm_compute. right. left. reflexivity.
  - exists [7]. split; [|left; reflexivity]. eapply fl_data; [reflexivity|constructor].
  - vm_compute. tauto.
Qed.

(* ---- histories never invent a file dependency -------------------------------- *)
Definition env_files (e : list field) : list fname := flat_map field_files e.

Lemma field_files_in_env e i f : nth_error e i = Some f -> incl (field_files f) (env_files e).
Proof.
  intros E x Hx. unfold env_files. apply in_flat_map. exists f. split; [|exact Hx].
  eapply nth_error_In; eauto.
Qed.

Lemma env_files_snoc e f : incl (field_files f) (env_files e) -> incl (env_files (e ++ [f])) (env_files e).
Proof.
  intros H x Hx. unfold env_files in Hx. rewrite flat_map_app in Hx. apply in_app_or in Hx as [Hx|Hx].
  - exact Hx.
  - simpl in Hx. rewrite app_nil_r in Hx. apply H. exact Hx.
Qed.

Lemma env_files_set_nth e n f :
  incl (field_files f) (env_files e) -> incl (env_files (set_nth n f e)) (env_files e).
Proof.
  intros H x Hx. unfold env_files in Hx. apply in_flat_map in Hx as (g & Hg & Hx).
  apply In_set_nth in Hg as [Hg|Hg].
  - subst. apply H. exact Hx.
  - unfold env_files. apply in_flat_map. exists g. auto.
Qed.

Lemma cons_files_in_field f k c : In (k, c) (f_cons f) -> incl (cons_files c) (field_files f).
Proof.
  intros H x Hx. unfold field_files. apply in_or_app. right. apply in_flat_map.
  exists (k, c). auto.
Qed.

Lemma select_files g s a : select g s = Some a -> incl (arr_files a) (field_files g).
Proof.
  destruct s; simpl.
  - intro H. unfold field_files. rewrite H. simpl. apply incl_appl, incl_refl.
  - destruct (kassoc k (f_cons g)) as [c|] eqn:K; simpl; [|discriminate]. intro H.
    eapply incl_tran; [|apply (cons_files_in_field g k c); apply kassoc_In; exact K].
    unfold cons_files. rewrite H. simpl. apply incl_appl, incl_refl.
  - destruct (kassoc k (f_cons g)) as [c|] eqn:K; simpl; [|discriminate].
    destruct (c_bounds c) as [b|] eqn:B; simpl; [|discriminate]. intro H.
    eapply incl_tran; [|apply (cons_files_in_field g k c); apply kassoc_In; exact K].
    unfold cons_files. rewrite B. simpl. rewrite H. simpl. apply incl_appr, incl_appl, incl_refl.
  - destruct (kassoc k (f_cons g)) as [c|] eqn:K; simpl; [|discriminate].
    destruct (c_ring c) as [b|] eqn:B; simpl; [|discriminate]. intro H.
    eapply incl_tran; [|apply (cons_files_in_field g k c); apply kassoc_In; exact K].
    unfold cons_files. rewrite B. simpl. rewrite H. simpl. apply incl_appr, incl_appr, incl_refl.
Qed.

Lemma flat_cons_incl (l l' : list (string * cons)) :
  incl l l' -> incl (flat_map (fun kc => cons_files (snd kc)) l) (flat_map (fun kc => cons_files (snd kc)) l').
Proof.
  intros H x Hx. apply in_flat_map in Hx as (kc & H1 & H2). apply in_flat_map. exists kc. auto.
Qed.

Lemma kupdate_files k g (l : list (string * cons)) extra :
  (forall c, incl (cons_files (g c)) (cons_files c ++ extra)) ->
  incl (flat_map (fun kc => cons_files (snd kc)) (kupdate k g l))
       (flat_map (fun kc => cons_files (snd kc)) l ++ extra).
Proof.
  intro Hg. induction l as [|[k' c] r IH]; simpl; [intros x []|].
  destruct (String.eqb k k'); simpl.
  - intros x Hx. apply in_app_or in Hx as [Hx|Hx].
    + apply Hg in Hx. apply in_app_or in Hx as [Hx|Hx]; [|apply in_or_app; right; exact Hx].
      apply in_or_app. left. apply in_or_app. left. exact Hx.
    + apply IH in Hx. apply in_app_or in Hx as [Hx|Hx]; apply in_or_app; [left|right; exact Hx].
      apply in_or_app. right. exact Hx.
  - intros x Hx. apply in_app_or in Hx as [Hx|Hx].
    + apply in_or_app. left. apply in_or_app. left. exact Hx.
    + apply IH in Hx. apply in_app_or in Hx as [Hx|Hx]; apply in_or_app; [left|right; exact Hx].
      apply in_or_app. right. exact Hx.
Qed.

Lemma step_files e o : incl (env_files (step e o)) (env_files e).
Proof.
  destruct o; simpl.
  - destruct (nth_error e i) eqn:E; [|apply incl_refl]. apply env_files_snoc.
    eapply field_files_in_env; eauto.
  - destruct (nth_error e i) as [f|] eqn:E; [|apply incl_refl]. apply env_files_snoc.
    eapply incl_tran; [|eapply field_files_in_env; eauto]. unfold field_files. simpl.
    apply incl_appr. apply flat_cons_incl. intros x Hx. apply filter_In in Hx. tauto.
  - destruct (nth_error e i) eqn:E; [|apply incl_refl]. apply env_files_snoc.
    eapply field_files_in_env; eauto.
  - destruct (nth_error e i) as [f|] eqn:E; [|apply incl_refl]. unfold convert.
    destruct (kassoc k (f_cons f)) as [c|] eqn:K; [|apply incl_refl]. apply env_files_snoc.
    eapply incl_tran; [|eapply field_files_in_env; eauto]. unfold field_files at 1. simpl.
    apply incl_app.
    + eapply incl_tran; [|apply (cons_files_in_field f k c); apply kassoc_In; exact K].
      unfold cons_files. apply incl_appl, incl_refl.
    + unfold field_files. apply incl_appr. apply flat_cons_incl. intros x Hx.
      apply filter_In in Hx. tauto.
  - apply env_files_snoc. intros x [].
  - destruct (nth_error e dst) as [f|] eqn:E; [|apply incl_refl].
    destruct (nth_error e src) as [g|] eqn:E2; [|apply incl_refl].
    destruct (select g s) as [a|] eqn:S; [|apply incl_refl]. apply env_files_set_nth.
    unfold field_files at 1. simpl. apply incl_app.
    + eapply incl_tran; [apply (select_files _ _ _ S)|]. eapply field_files_in_env; eauto.
    + eapply incl_tran; [|eapply (field_files_in_env e dst f); eauto]. unfold field_files.
      apply incl_appr, incl_refl.
  - destruct (nth_error e i) as [f|] eqn:E; [|apply incl_refl]. apply env_files_set_nth.
    eapply incl_tran; [|eapply field_files_in_env; eauto]. unfold field_files. simpl.
    apply incl_appr, incl_refl.
  - destruct (nth_error e i) as [f|] eqn:E; [|apply incl_refl]. apply env_files_set_nth.
    eapply incl_tran; [|eapply field_files_in_env; eauto]. unfold field_files. simpl.
    apply incl_app_app; [apply incl_refl|]. apply flat_cons_incl. apply kremove_incl.
  - destruct (nth_error e dst) as [f|] eqn:E; [|apply incl_refl].
    destruct (nth_error e src) as [g|] eqn:E2; [|apply incl_refl].
    destruct (kassoc k (f_cons g)) as [c|] eqn:K; [|apply incl_refl]. apply env_files_set_nth.
    unfold field_files at 1. simpl. rewrite flat_map_app. simpl. rewrite app_nil_r.
    apply incl_app; [|apply incl_app].
    + eapply incl_tran; [|eapply (field_files_in_env e dst f); eauto]. unfold field_files.
      apply incl_appl, incl_refl.
    + eapply incl_tran; [|eapply (field_files_in_env e dst f); eauto]. unfold field_files.
      apply incl_appr. apply flat_cons_incl. apply kremove_incl.
    + eapply incl_tran; [apply (cons_files_in_field g k c); apply kassoc_In; exact K|].
      eapply field_files_in_env; eauto.
  - destruct (nth_error e i) as [f|] eqn:E; [|apply incl_refl]. apply env_files_set_nth.
    eapply incl_tran; [|eapply field_files_in_env; eauto]. unfold field_files. simpl.
    apply incl_app_app; [apply incl_refl|].
    eapply incl_tran; [apply (kupdate_files k _ _ [])|rewrite app_nil_r; apply incl_refl].
    intro c. rewrite app_nil_r. unfold cons_files. simpl.
    apply incl_app_app; [apply incl_refl|]. apply incl_appr, incl_refl.
  - destruct (nth_error e dst) as [f|] eqn:E; [|apply incl_refl].
    destruct (nth_error e src) as [g|] eqn:E2; [|apply incl_refl].
    destruct (kassoc k' (f_cons g)) as [c'|] eqn:K; simpl; [|apply incl_refl].
    destruct (c_bounds c') as [b|] eqn:B; [|apply incl_refl]. apply env_files_set_nth.
    unfold field_files at 1. simpl. apply incl_app.
    + eapply incl_tran; [|eapply (field_files_in_env e dst f); eauto]. unfold field_files.
      apply incl_appl, incl_refl.
    + eapply incl_tran; [apply (kupdate_files k _ _ (pvar_files arr_files (Some b)))|].
      * intro c. unfold cons_files. simpl. intros x Hx. apply in_app_or in Hx as [Hx|Hx].
        -- apply in_or_app. left. apply in_or_app. left. exact Hx.
        -- apply in_app_or in Hx as [Hx|Hx].
           ++ apply in_or_app. right. exact Hx.
           ++ apply in_or_app. left. apply in_or_app. right. apply in_or_app. right. exact Hx.
      * apply incl_app.
        -- eapply incl_tran; [|eapply (field_files_in_env e dst f); eauto]. unfold field_files.
           apply incl_appr, incl_refl.
        -- eapply incl_tran; [|eapply (field_files_in_env e src g); eauto].
           eapply incl_tran; [|apply (cons_files_in_field g k' c'); apply kassoc_In; exact K].
           unfold cons_files. rewrite B. apply incl_appr, incl_appl, incl_refl.
  - destruct (nth_error e dst) as [f|] eqn:E; [|apply incl_refl].
    destruct (nth_error e src) as [g|] eqn:E2; [|apply incl_refl].
    destruct (select g s) as [a|] eqn:S; [|apply incl_refl]. apply env_files_set_nth.
    unfold field_files at 1. simpl. apply incl_app.
    + eapply incl_tran; [|eapply (field_files_in_env e dst f); eauto]. unfold field_files.
      apply incl_appl, incl_refl.
    + eapply incl_tran; [apply (kupdate_files k _ _ (arr_files a))|].
      * intro c. destruct (c_bounds c) as [b|] eqn:B; [|apply incl_appl, incl_refl].
        unfold cons_files. simpl. rewrite B. simpl. intros x Hx. apply in_app_or in Hx as [Hx|Hx].
        -- apply in_or_app. left. apply in_or_app. left. exact Hx.
        -- apply in_app_or in Hx as [Hx|Hx].
           ++ apply in_or_app. right. exact Hx.
           ++ apply in_or_app. left. apply in_or_app. right. apply in_or_app. right. exact Hx.
      * apply incl_app.
        -- eapply incl_tran; [|eapply (field_files_in_env e dst f); eauto]. unfold field_files.
           apply incl_appr, incl_refl.
        -- eapply incl_tran; [apply (select_files _ _ _ S)|]. eapply field_files_in_env; eauto.
  - (* ONewCons *) destruct (nth_error e i) as [f|] eqn:E; [|apply incl_refl]. apply env_files_set_nth.
    unfold field_files at 1. simpl. rewrite flat_map_app. simpl. rewrite !app_nil_r.
    eapply incl_tran; [|eapply (field_files_in_env e i f); eauto]. unfold field_files.
    apply incl_app_app; [apply incl_refl|]. apply flat_cons_incl. apply kremove_incl.
  - apply incl_refl.
Qed.

Lemma cons_refb_files c c' : cons_refb c c' = true -> incl (cons_files c) (cons_files c').
Proof.
  unfold cons_refb. intro H1.
  apply andb_true_iff in H1 as [H1 H5]. apply andb_true_iff in H1 as [H1 H4].
  apply andb_true_iff in H1 as [_ H3]. unfold cons_files.
  apply incl_app_app; [apply odat_refb_incl; exact H3|].
  apply incl_app_app; [apply (pvar_refb_incl _ _ H4)|apply (pvar_refb_incl _ _ H5)].
Qed.

Lemma cons_list_refb_files o p :
  cons_list_refb o p = true ->
  incl (flat_map (fun kc => cons_files (snd kc)) o) (flat_map (fun kc => cons_files (snd kc)) p).
Proof.
  unfold cons_list_refb. intro H. apply andb_true_iff in H as [_ H].
  rewrite forallb_forall in H. intros x Hx. apply in_flat_map in Hx as ([k c] & Hkc & Hx).
  specialize (H _ Hkc). simpl in *. destruct (kassoc k p) as [c'|] eqn:K; [|discriminate].
  apply kassoc_In in K. apply in_flat_map. exists (k, c'). split; [exact K|]. simpl.
  apply (cons_refb_files _ _ H). exact Hx.
Qed.

Lemma field_refb_files o p : field_refb o p = true -> incl (field_files o) (field_files p).
Proof.
  unfold field_refb. intro H. apply andb_true_iff in H as [H H3]. apply andb_true_iff in H as [_ H2].
  unfold field_files. apply incl_app_app; [apply odat_refb_incl; exact H2|apply cons_list_refb_files; exact H3].
Qed.

Lemma env_refb_files o p : env_refb o p = true -> incl (env_files o) (env_files p).
Proof.
  unfold env_refb, env_files. revert p. induction o as [|x r IH]; intros [|y r2]; simpl; intro H;
    try discriminate; [intros z []|].
  apply andb_true_iff in H as [H1 H2]. apply incl_app_app; [apply field_refb_files; exact H1|apply IH; exact H2].
Qed.

(* every file needed by a construct of any history was needed by one of the
   constructs the history started from *)
Lemma needs_bounded e0 e f x :
  reach any_op e0 e -> In f e -> needs f x -> exists f0, In f0 e0 /\ needs f0 x.
Proof.
  intros R Hf Hn.
  assert (I : incl (env_files e) (env_files e0)).
  { clear Hf Hn. induction R as [|e o e' R IH P H]; [apply incl_refl|].
    eapply incl_tran; [apply env_refb_files; exact H|].
    eapply incl_tran; [apply step_files|exact IH]. }
  assert (Hx : In x (env_files e)).
  { unfold env_files. apply in_flat_map. exists f. split; [exact Hf|]. apply files_complete. exact Hn. }
  apply I in Hx. unfold env_files in Hx. apply in_flat_map in Hx as (f0 & H0 & Hx).
  exists f0. split; [exact H0|]. apply files_complete. exact Hx.
Qed.

(* ---- non-vacuity ------------------------------------------------------------ *)
(* file 7 is a regular file, 8 a link to it; a field with lazy data, a
   coordinate with lazy bounds and a compressed array with a lazy count
   variable; the writer refuses to write it over 7 and over 8, and writes to 9 *)
Definition ex_field : field :=
  mkF [7] (Some (Comp Mem [mkAnc [7] (File [7])]))
      [("dimensioncoordinate0"%string, mkC [7] (Some (Plain Mem)) (Some (mkP [7] (Some (Plain (File [7]))))) None)].

