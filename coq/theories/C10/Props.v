(* C10 - the property theorems, nothing else.  Each is closed by [exact] of a
   lemma from Lemmas.v and followed by Print Assumptions.  The model is that
   of the code with the repair C10-fix-1 applied; the superseded guard and
   get_filenames are refuted in Refuted.v. *)
From CfdmV Require Import Common.Base C10.Model C10.Spec C10.Lemmas.
Open Scope Z_scope.

(* get_filenames() of a field or domain construct is exactly the set of files
   that some array reachable from it - field data, construct data, bounds,
   interior ring, compressed data, count / index / list / tie-point
   variables - still has to be read from; for constructs of every size. *)
Theorem C10_files_complete :
  forall f x, In x (field_files f) <-> needs f x.
Proof. exact files_complete. Qed.
Print Assumptions C10_files_complete.

(* The guard is sound whatever produced the constructs (hence over every
   derivation history): a regular file from which any construct being written
   still has unread data is left exactly as it was by every mode-w write -
   overwrite on or off, whether the write succeeds, is refused or fails
   part-way, the target being named directly or through a symbolic link - and
   keeps its existing content under append. *)
Theorem C10_guard_sound :
  forall fs fields x o stamp fs' r f n,
  wf_fs fs -> In f fields -> needs f n ->
  write_model guard fs fields x o stamp = (fs', r) ->
  match w_mode o with
  | MA => option_map fst (content fs' (real fs n)) = option_map fst (content fs (real fs n))
  | _ => content fs' (real fs n) = content fs (real fs n)
  end.
Proof. exact guard_sound. Qed.
Print Assumptions C10_guard_sound.

(* Non-vacuity: lazy bounds and a lazy count variable under in-memory data;
   refused for the file and for a link to it, accepted elsewhere; the guard as
   it was would have let the transplanted data through. *)
Theorem C10_guard_sound_example :
  wf_fs ex_fs /\ needs ex_field 7 /\
  write_model guard ex_fs [ex_field] 7 (mkW MW true FNone) 101 = (ex_fs, Some ValueErr) /\
  write_model guard ex_fs [ex_field] 8 (mkW MW true FNone) 101 = (ex_fs, Some ValueErr) /\
  snd (write_model guard ex_fs [ex_field] 9 (mkW MW true FNone) 101) = None /\
  guard_old ex_fs (mkF [] (f_data ex_field) []) 7 = false.
Proof. exact guard_sound_example. Qed.
Print Assumptions C10_guard_sound_example.

(* A request that the guard rejects is refused before the file is touched:
   the file system is returned as it was, with a ValueError. *)
Theorem C10_refused_before_touch :
  forall G fs fields x o stamp,
  w_mode o = MW -> (forall e, w_fault o <> FEarly1 e) -> (forall e, w_fault o <> FEarly2 e) ->
  isfile fs x && negb (w_overwrite o) = false ->
  existsb (fun f => G fs f x) fields = true ->
  write_model G fs fields x o stamp = (fs, Some ValueErr).
Proof. exact refused_untouched. Qed.
Print Assumptions C10_refused_before_touch.

(* Every error other than one raised while variables are being written (bad
   mode, bad option value, unknown format, overwrite disabled, guard) leaves
   the whole file system as it was. *)
Theorem C10_error_untouched :
  forall G fs fields x o stamp fs' e,
  w_fault o <> FLate -> w_mode o <> MA ->
  write_model G fs fields x o stamp = (fs', Some e) -> fs' = fs.
Proof. exact error_untouched. Qed.
Print Assumptions C10_error_untouched.

(* With overwrite disabled an existing file is left intact, whatever is
   written and with whatever other options: the call raises. *)
Theorem C10_no_overwrite :
  forall G fs fields x o stamp,
  w_mode o = MW -> w_overwrite o = false -> isfile fs x = true ->
  exists e, write_model G fs fields x o stamp = (fs, Some e).
Proof. exact no_overwrite. Qed.
Print Assumptions C10_no_overwrite.

(* The recorded original file names (what the guard consulted alone before the
   repair, and still consults) keep covering the files a construct's data need
   over every history - of any length, with any arrays brought into memory on
   the way - of copies, subspaces, squeezes, transposes, conversions, domain
   extraction, Field(source=), deletion and insertion of constructs and of
   bounds, as long as no data object is transplanted. *)
Theorem C10_orig_covers_needs :
  forall e0 e f x,
  Forall field_inv e0 -> reach no_transplant e0 e -> In f e -> needs f x ->
  In x (field_orig f).
Proof. exact orig_covers_needs. Qed.
Print Assumptions C10_orig_covers_needs.

(* Without the restriction the statement is false: set_data with another
   construct's lazy data (F10a) - which is why the repaired guard also
   consults get_filenames(). *)
Theorem C10_orig_covers_needs_transplant_refuted :
  exists e0 e f x, Forall field_inv e0 /\ reach any_op e0 e /\ In f e /\ needs f x /\
                   ~ In x (field_orig f).
Proof. exact orig_covers_needs_transplant_refuted. Qed.
Print Assumptions C10_orig_covers_needs_transplant_refuted.

(* Derivations never invent a dependency: whatever file a construct of any
   history (transplants included) needs, one of the constructs the history
   started from needed. *)
Theorem C10_needs_bounded :
  forall e0 e f x,
  reach any_op e0 e -> In f e -> needs f x -> exists f0, In f0 e0 /\ needs f0 x.
Proof. exact needs_bounded. Qed.
Print Assumptions C10_needs_bounded.
