(* C10 - the property theorems, nothing else.  Each is closed by [exact] of a
   lemma and followed by Print Assumptions.  The model is that of the code
   with the repairs C10-fix-1 and C10-fix2-1..3 applied; superseded code is
   refuted in Refuted.v. *)
From CfdmV Require Import Common.Base C10.Model C10.Spec C10.Lemmas C10.Fs C10.FsLemmas C10.Ident.
Open Scope Z_scope.

(* get_filenames() of a field or domain construct is exactly the set of files
   that some array reachable from it - field data, construct data, bounds,
   interior ring, compressed data, count / index / list / tie-point
   variables - still has to be read from; for constructs of every size. *)
Theorem C10_files_complete :
  forall f x, In x (field_files f) <-> needs f x.
Proof. exact files_complete. Qed.
Print Assumptions C10_files_complete.

(* The guard is sound whatever produced the constructs (hence over every
   derivation history), for every file system in which files and links are
   leaves - symbolic links may sit at ANY component of any name: to the file,
   to a parent directory, to the scratch directory - and for every spelling of
   the target and of the external file.  The regular file (identified by its
   canonical path, i.e. what os.path.realpath compares) from which a written
   construct still has unread data is left exactly as it was by every mode-w
   call - main file AND external file, overwrite on or off, whether the call
   succeeds, is refused or fails part-way - and keeps its content under append. *)
Theorem C10_guard_sound :
  forall fs q o stamp fs' r f n,
  tree_wf (nodes fs) -> In f (q_fields q) -> needs f n ->
  is_regular (nodes fs) (real fs n) = true ->
  write_model guard fs q o stamp = (fs', r) ->
  match w_mode o with
  | MA => stamp_of (content fs' (real fs n)) = stamp_of (content fs (real fs n))
  | _ => content fs' (real fs n) = content fs (real fs n)
  end.
Proof. exact guard_sound. Qed.
Print Assumptions C10_guard_sound.

(* Non-vacuity: lazy bounds + lazy count variable under in-memory data; refused
   by name, through a link to the parent directory, through a link to the file
   and through a linked scratch directory; accepted elsewhere; the external
   file refused when a construct itself needs it; an existing external file
   kept when overwrite is disabled. *)
Theorem C10_guard_sound_example :
  tree_wf (nodes ex_fs) /\ needs (ex_field_n 10) 10 /\ is_regular (nodes ex_fs) (real ex_fs 10) = true /\
  Forall (fun x => write_model guard ex_fs (ex_q x) (mkW MW true FNone) 1000 = (ex_fs, Some ValueErr))
         [10; 11; 12; 13] /\
  same_file (nodes ex_fs) (path_of ex_fs 13) (path_of ex_fs 10) /\
  snd (write_model guard ex_fs (ex_q 14) (mkW MW true FNone) 1000) = None /\
  (let '(fs', r) := write_model guard ex_fs (mkQ [ex_g] [ex_ef] (tg ex_fs 14) (Some (tg ex_fs 11)))
                                (mkW MW true FNone) 1000 in
   r = Some ValueErr /\ content fs' [1; 2; 4] = content ex_fs [1; 2; 4]) /\
  (let '(fs', r) := write_model guard ex_fs (mkQ [ex_h] [ex_ef] (tg ex_fs 14) (Some (tg ex_fs 15)))
                                (mkW MW false FNone) 1000 in
   r = Some OtherErr /\ content fs' [1; 2; 8] = content ex_fs [1; 2; 8]).
Proof. exact guard_sound_example. Qed.
Print Assumptions C10_guard_sound_example.

(* A request that the guard rejects is refused before any file is touched. *)
Theorem C10_refused_before_touch :
  forall C FW G fs q o stamp,
  w_mode o = MW -> (forall e, w_fault o <> FEarly1 e) -> (forall e, w_fault o <> FEarly2 e) ->
  isfile_p (nodes fs) (t_path (q_x q)) && negb (w_overwrite o) = false ->
  existsb (fun f => G fs f (q_x q)) (q_fields q) = true ->
  write_gen C FW G fs q o stamp = (fs, Some ValueErr).
Proof. exact refused_untouched. Qed.
Print Assumptions C10_refused_before_touch.

(* The external file is refused, before it is touched, when one of the
   constructs being written itself still needs it (repair fix2-2). *)
Theorem C10_external_refused_before_touch :
  forall G fs q o stamp fs1 e ef efs,
  write_one G fs (q_fields q) (q_x q) o (ext_same_at G fs q o stamp) stamp = (fs1, None) ->
  q_ext q = Some e -> q_efields q = ef :: efs ->
  existsb (fun f => G fs1 f e) (q_fields q) = true ->
  write_model G fs q o stamp = (fs1, Some ValueErr).
Proof. exact external_refused. Qed.
Print Assumptions C10_external_refused_before_touch.

(* Errors raised by the option checks (bad mode, bad option value, unknown
   format) leave the whole file system as it was. *)
Theorem C10_option_error_untouched :
  forall C FW G fs q o stamp,
  w_mode o = MBad \/ (exists e, w_fault o = FEarly1 e) \/ (w_mode o = MW /\ exists e, w_fault o = FEarly2 e) ->
  exists e, write_gen C FW G fs q o stamp = (fs, Some e).
Proof. exact option_error_untouched. Qed.
Print Assumptions C10_option_error_untouched.

(* With overwrite disabled an existing target makes the call raise with the
   file system unchanged ... *)
Theorem C10_no_overwrite :
  forall C FW G fs q o stamp,
  w_mode o = MW -> w_overwrite o = false -> isfile_p (nodes fs) (t_path (q_x q)) = true ->
  exists e, write_gen C FW G fs q o stamp = (fs, Some e).
Proof. exact no_overwrite. Qed.
Print Assumptions C10_no_overwrite.

(* ... and EVERY regular file that exists before the call is identical
   afterwards, whatever role it plays (target, external file, bystander),
   whatever is written, whatever guard, however the names are spelt. *)
Theorem C10_no_overwrite_all :
  forall G fs q o stamp fs' r K,
  tree_wf (nodes fs) -> w_mode o = MW -> w_overwrite o = false -> is_regular (nodes fs) K = true ->
  write_model G fs q o stamp = (fs', r) ->
  content fs' K = content fs K.
Proof. exact no_overwrite_all. Qed.
Print Assumptions C10_no_overwrite_all.

(* The recorded original file names keep covering the files a construct's
   data need over every history - of any length, with any arrays brought into
   memory on the way - of copies, subspaces, squeezes, transposes,
   conversions, domain extraction, Field(source=), deletion and insertion of
   constructs (also constructs made in memory) and of bounds, as long as no
   data object is transplanted. *)
Theorem C10_orig_covers_needs :
  forall e0 e f x,
  Forall field_inv e0 -> reach no_transplant e0 e -> In f e -> needs f x ->
  In x (field_orig f).
Proof. exact orig_covers_needs. Qed.
Print Assumptions C10_orig_covers_needs.

(* Without the restriction the statement is false: set_data with another
   construct's lazy data (F10a) - which is why the guard also consults
   get_filenames(). *)
Theorem C10_orig_covers_needs_transplant_refuted :
  exists e0 e f x, Forall field_inv e0 /\ reach any_op e0 e /\ In f e /\ needs f x /\
                   ~ In x (field_orig f).
Proof. exact orig_covers_needs_transplant_refuted. Qed.
Print Assumptions C10_orig_covers_needs_transplant_refuted.

(* Derivations never invent a dependency. *)
Theorem C10_needs_bounded :
  forall e0 e f x,
  reach any_op e0 e -> In f e -> needs f x -> exists f0, In f0 e0 /\ needs f0 x.
Proof. exact needs_bounded. Qed.
Print Assumptions C10_needs_bounded.

(* A write leaves the constructs passed to it exactly as they were: every
   mutable component the caller holds (any address below [n]) reads the same
   after the writer has processed any number of constructs, whether or not one
   of them raised - because the writer, as transcribed (checks, copy, then
   conform_geometry_variables and every later in-place change), mutates only
   objects created by its own copy. *)
Theorem C10_inputs_unchanged :
  forall cf18 later fields h n h' n' err,
  write_all (writer_prog cf18 later) h n fields = (h', n', err) ->
  forall a, (a < n)%nat -> hget h' a = hget h a.
Proof. exact writer_keeps_inputs. Qed.
Print Assumptions C10_inputs_unchanged.

(* the same for every program that copies before it changes anything, and every copy
   recipe under which each component kind (list / count / index variable, bounds, interior
   ring ...) becomes a new object - as the transcribed table [deep_copied] says of the code *)
Theorem C10_inputs_unchanged_copy_first :
  forall D prog fields, (forall k, D k = true) -> forall h n h' n' err,
  copy_first prog = true -> write_all_d D prog h n fields = (h', n', err) ->
  agree n h h' /\ (n <= n')%nat.
Proof. exact inputs_unchanged. Qed.
Print Assumptions C10_inputs_unchanged_copy_first.

(* Non-vacuity: the writer names the list variable of its copy; the caller's keeps its name. *)
Theorem C10_inputs_unchanged_list_example :
  exists h', write_all (writer_prog true [ISet 0 0 6]) ex_heap2 1%nat [ex_obj2] = (h', 2%nat, false)
             /\ hget h' 0%nat = [(0, 5)] /\ hget h' 1%nat = [(0, 6); (0, 5)].
Proof. exact deep_list_example. Qed.
Print Assumptions C10_inputs_unchanged_list_example.

(* Non-vacuity: interior ring variables with different property sets; the
   copies are harmonised, the caller's are not. *)
Theorem C10_inputs_unchanged_example :
  exists h', write_all (writer_prog true []) ex_heap 2%nat [ex_obj] = (h', 4%nat, false)
             /\ hget h' 0%nat = [(1, 7)] /\ hget h' 1%nat = [] /\ hget h' 3%nat = [(1, 7)].
Proof. exact writer_keeps_inputs_example. Qed.
Print Assumptions C10_inputs_unchanged_example.

(* ---- names as given (second round) ---------------------------------------------------------
   The file name is expanded first (os.path.expandvars, os.path.expanduser - a function of
   the environment), then identified.  The guard and the overwrite theorems hold for the
   name AS THE CALLER WROTE IT, for every environment ... *)
Theorem C10_guard_sound_given :
  forall ev fs q o stamp fs' r f n,
  tree_wf (nodes fs) -> In f (gq_fields q) -> needs f n ->
  is_regular (nodes fs) (real fs n) = true ->
  write_given ev guard fs q o stamp = (fs', r) ->
  match w_mode o with
  | MA => stamp_of (content fs' (real fs n)) = stamp_of (content fs (real fs n))
  | _ => content fs' (real fs n) = content fs (real fs n)
  end.
Proof. exact guard_sound_given. Qed.
Print Assumptions C10_guard_sound_given.

Theorem C10_no_overwrite_given :
  forall ev G fs q o stamp,
  w_mode o = MW -> w_overwrite o = false -> isfile_p (nodes fs) (expand ev (gq_x q)) = true ->
  exists e, write_given ev G fs q o stamp = (fs, Some e).
Proof. exact no_overwrite_given. Qed.
Print Assumptions C10_no_overwrite_given.

Theorem C10_no_overwrite_all_given :
  forall ev G fs q o stamp fs' r K,
  tree_wf (nodes fs) -> w_mode o = MW -> w_overwrite o = false -> is_regular (nodes fs) K = true ->
  write_given ev G fs q o stamp = (fs', r) ->
  content fs' K = content fs K.
Proof. exact no_overwrite_all_given. Qed.
Print Assumptions C10_no_overwrite_all_given.

(* ... and the whole outcome - refusal, files removed / created / appended to, error class -
   is the same for any two spellings that expand to the same paths. *)
Theorem C10_spelling_invariant :
  forall ev G fs q1 q2 o stamp,
  gq_fields q1 = gq_fields q2 -> gq_efields q1 = gq_efields q2 ->
  expand ev (gq_x q1) = expand ev (gq_x q2) ->
  option_map (expand ev) (gq_ext q1) = option_map (expand ev) (gq_ext q2) ->
  write_given ev G fs q1 o stamp = write_given ev G fs q2 o stamp.
Proof. exact spelling_invariant. Qed.
Print Assumptions C10_spelling_invariant.

(* Non-vacuity: an existing file named plainly, as $V/e.nc, as ~/e.nc and through a directory
   link is refused alike with overwrite disabled; with the existence test made on the
   unexpanded name nothing is refused and the file is replaced. *)
Theorem C10_given_example :
  Forall (fun x => write_given ex_env guard ex_fs (ex_gq x) (mkW MW false FNone) 1000 = (ex_fs, Some OtherErr))
         [[RLit 1; RLit 2; RLit 8]; [RVar 1; RLit 8]; [RHome; RLit 8]; [RLit 1; RLit 3; RLit 8]] /\
  (let '(fs', r) := write_given_test_unexpanded (fun _ => [99; 8]) ex_env guard ex_fs (ex_gq [RVar 1; RLit 8])
                      (mkW MW false FNone) 1000 in
   r = None /\ content fs' [1; 2; 8] <> content ex_fs [1; 2; 8]).
Proof. exact given_example. Qed.
Print Assumptions C10_given_example.

(* The refusal of "external file == target" is decided where the code decides it: after the
   target has been opened (mode w), in the dry run (append). *)
Theorem C10_ext_same_example :
  snd (write_model guard ex_fs (mkQ [ex_h] [ex_ef] (tg ex_fs 12) (Some (tg ex_fs 10))) (mkW MW true FNone) 1000) = None /\
  snd (write_model guard ex_fs (mkQ [ex_h] [ex_ef] (tg ex_fs 11) (Some (tg ex_fs 10))) (mkW MW true FNone) 1000) = Some ValueErr /\
  snd (write_model guard ex_fs (mkQ [ex_h] [ex_ef] (tg ex_fs 12) (Some (tg ex_fs 10))) (mkW MA true FNone) 1000) = Some ValueErr.
Proof. exact ext_same_example. Qed.
Print Assumptions C10_ext_same_example.
