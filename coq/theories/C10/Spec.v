(* C10 - specification vocabulary, written independently of the aggregating
   methods of cfdm: which files a construct NEEDS (every file array reachable
   from it, wherever it hangs), what a derivation history is, and what it means
   for a file to be left alone. *)
From CfdmV Require Import Common.Base C10.Model.
Open Scope Z_scope.

(* the arrays reachable from a Data object *)
Inductive arr_leaf : arr -> leaf -> Prop :=
| al_plain l : arr_leaf (Plain l) l
| al_inner i a : arr_leaf (Comp i a) i
| al_anc i a x : In x a -> arr_leaf (Comp i a) (a_leaf x).

Inductive cons_leaf : cons -> leaf -> Prop :=
| cl_data c a l : c_data c = Some a -> arr_leaf a l -> cons_leaf c l
| cl_bounds c b a l : c_bounds c = Some b -> p_data b = Some a -> arr_leaf a l -> cons_leaf c l
| cl_ring c b a l : c_ring c = Some b -> p_data b = Some a -> arr_leaf a l -> cons_leaf c l.

Inductive field_leaf : field -> leaf -> Prop :=
| fl_data f a l : f_data f = Some a -> arr_leaf a l -> field_leaf f l
| fl_cons f k c l : In (k, c) (f_cons f) -> cons_leaf c l -> field_leaf f l.

(* construct f still has unread data in file x *)
Definition needs (f : field) (x : fname) : Prop :=
  exists fs, field_leaf f (File fs) /\ In x fs.

(* derivation histories: any sequence of operations satisfying P, each of
   which may bring any arrays of any register into memory *)
Inductive reach (P : op -> bool) (e0 : list field) : list field -> Prop :=
| reach_refl : reach P e0 e0
| reach_step e o e' :
    reach P e0 e -> P o = true -> env_refb e' (step e o) = true -> reach P e0 e'.

Definition any_op (_ : op) : bool := true.
Definition no_transplant (o : op) : bool := negb (transplant o).

(* the recorded original file names of every holder cover the files that the
   data it holds need (true of constructs as the reader creates them) *)
Definition cons_inv (c : cons) : Prop :=
  incl (odat_files arr_files (c_data c)) (c_orig c) /\
  incl (pvar_files arr_files (c_bounds c)) (pvar_orig (c_bounds c)) /\
  incl (pvar_files arr_files (c_ring c)) (pvar_orig (c_ring c)).

Definition field_inv (f : field) : Prop :=
  incl (odat_files arr_files (f_data f)) (f_orig f) /\
  Forall (fun kc => cons_inv (snd kc)) (f_cons f).
