(* C10 - the writer's treatment of the constructs it is given, with object
   identities: "a write leaves the constructs passed to it exactly as they were".

   Anchors:
     cfdm/read_write/netcdf/netcdfwrite.py   _write_field_or_domain: early acceptance checks,
                                             f = copy_construct(org_f), conform_geometry_variables(f),
                                             later renames of components of f (list / count / index
                                             variables, netCDF names, external fields)
     cfdm/cfdmimplementation.py              conform_geometry_variables, copy_construct

   Mutable components (the property dictionaries of node count, part node
   count and interior ring variables, of bounds, count / index / list
   variables, cell measures, domain ancillaries, coordinate conversions ...)
   live in a heap and are referred to by ADDRESS (Python identity), as in the
   C04 model.  The caller's constructs are the addresses below [next] when the
   write starts.  The writer is a list of instructions acting on "the current
   object"; the copy is an instruction placed where it is in the code, so the
   theorem is about the ORDER of the steps: moving the copy after a mutating
   step makes [copy_first] false and the proof fail.  Definitions and proofs
   (the development is small). *)
From CfdmV Require Import Common.Base.
Open Scope Z_scope.

Definition addr := nat.
Definition props := list (Z * Z).            (* property name -> value, both interned *)
Definition heap := list (addr * props).

Fixpoint hget (h : heap) (a : addr) : props :=
  match h with
  | [] => []
  | (b, p) :: r => if Nat.eqb a b then p else hget r a
  end.

Definition hset (h : heap) (a : addr) (p : props) : heap := (a, p) :: h.

(* the geometry variables of one auxiliary coordinate *)
Record gcoord := mkG { g_nc : option addr; g_pnc : option addr; g_ring : option addr }.

(* a field or domain as the writer sees it: the geometry variables of its
   auxiliary coordinates, in order, and every other mutable component *)
Inductive ckind := KList | KCount | KIndex | KBounds | KRing | KOther.

Record obj := mkO { o_geo : list gcoord; o_other : list (ckind * addr) }.

(* How copy_construct treats a component of each kind: true = the copy holds a NEW object
   (cfdm/data/gatheredarray.py:120 and data/abstract/raggedarray.py:111-114:
   _set_component("list_variable" | "count_variable" | "index_variable", ..., copy=copy) with
   copy=True when an array is initialised from a source; bounds and interior ring:
   value.copy() in PropertiesDataBounds.__init__) *)
Definition deep_copied (k : ckind) : bool := true.

(* seeded change (second round): GatheredArray.__init__ shares the list variable of its source *)
Definition list_shared (k : ckind) : bool := match k with KList => false | _ => true end.

Definition opt_addrs (o : option addr) : list addr := match o with Some a => [a] | None => [] end.

Definition geo_addrs (k : nat) (l : list gcoord) : list addr :=
  flat_map (fun g => opt_addrs (match k with O => g_nc g | S O => g_pnc g | _ => g_ring g end)) l.

Definition kind_addrs (k : nat) (o : obj) : list addr := geo_addrs k (o_geo o).

Definition obj_addrs (o : obj) : list addr :=
  kind_addrs 0 o ++ kind_addrs 1 o ++ kind_addrs 2 o ++ map snd (o_other o).

(* ---- copy_construct: every component is a new object with the same content ------- *)
Definition copy_opt (hn : heap * nat) (o : option addr) : (heap * nat) * option addr :=
  match o with
  | None => (hn, None)
  | Some a => let '(h, n) := hn in ((hset h n (hget h a), S n), Some n)
  end.

Fixpoint copy_geo (hn : heap * nat) (l : list gcoord) : (heap * nat) * list gcoord :=
  match l with
  | [] => (hn, [])
  | g :: r =>
      let '(hn1, a) := copy_opt hn (g_nc g) in
      let '(hn2, b) := copy_opt hn1 (g_pnc g) in
      let '(hn3, c) := copy_opt hn2 (g_ring g) in
      let '(hn4, r') := copy_geo hn3 r in
      (hn4, mkG a b c :: r')
  end.

Fixpoint copy_list (D : ckind -> bool) (hn : heap * nat) (l : list (ckind * addr))
  : (heap * nat) * list (ckind * addr) :=
  match l with
  | [] => (hn, [])
  | (k, a) :: r =>
      if D k then
        let '(h, n) := hn in
        let '(hn1, r') := copy_list D (hset h n (hget h a), S n) r in
        (hn1, (k, n) :: r')
      else
        let '(hn1, r') := copy_list D hn r in
        (hn1, (k, a) :: r')
  end.

Definition copy_obj (D : ckind -> bool) (hn : heap * nat) (o : obj) : (heap * nat) * obj :=
  let '(hn1, g) := copy_geo hn (o_geo o) in
  let '(hn2, l) := copy_list D hn1 (o_other o) in
  (hn2, mkO g l).

(* ---- conform_geometry_variables ---------------------------------------------------- *)
Fixpoint passq (k : Z) (p : props) : option Z :=
  match p with
  | [] => None
  | (k', v) :: r => if Z.eqb k k' then Some v else passq k r
  end.

(* first loop: collate the properties; None = two variables disagree *)
Fixpoint collect (out : props) (ps : props) : option props :=
  match ps with
  | [] => Some out
  | (k, v) :: r =>
      match passq k out with
      | None => collect (out ++ [(k, v)]) r
      | Some v' => if Z.eqb v v' then collect out r else None
      end
  end.

Definition collect_all (h : heap) (l : list addr) : option props :=
  fold_left (fun acc a => obind acc (fun out => collect out (hget h a))) l (Some []).

(* second loop: x.set_properties(out) *)
Definition merge (p out : props) : props :=
  p ++ filter (fun kv => match passq (fst kv) p with Some _ => false | None => true end) out.

Definition set_all (h : heap) (l : list addr) (out : props) : heap :=
  fold_left (fun h a => hset h a (merge (hget h a) out)) l h.

Definition conform (h : heap) (o : obj) : option heap :=
  match collect_all h (kind_addrs 0 o), collect_all h (kind_addrs 1 o), collect_all h (kind_addrs 2 o) with
  | Some o0, Some o1, Some o2 =>
      Some (set_all (set_all (set_all h (kind_addrs 0 o) o0) (kind_addrs 1 o) o1) (kind_addrs 2 o) o2)
  | _, _, _ => None
  end.

(* ---- the writer as a program --------------------------------------------------------- *)
Inductive instr :=
| IInspect                         (* reads only: is_domain, version tests, get_compression_type *)
| ICopy                            (* f = self.implementation.copy_construct(org_f) *)
| IConform                         (* conform_geometry_variables(f); False -> ValueError *)
| ISet (i : nat) (k v : Z).        (* a later in-place change of the i-th other component of f
                                      (nc_set_variable, set_property, ...) *)

Record state := mkS { s_heap : heap; s_next : nat; s_cur : obj }.

Definition exec1 (D : ckind -> bool) (s : state) (i : instr) : option state :=
  match i with
  | IInspect => Some s
  | ICopy =>
      let '((h, n), o) := copy_obj D (s_heap s, s_next s) (s_cur s) in Some (mkS h n o)
  | IConform =>
      match conform (s_heap s) (s_cur s) with
      | Some h => Some (mkS h (s_next s) (s_cur s))
      | None => None
      end
  | ISet i k v =>
      match nth_error (map snd (o_other (s_cur s))) i with
      | Some a => Some (mkS (hset (s_heap s) a ((k, v) :: hget (s_heap s) a)) (s_next s) (s_cur s))
      | None => Some s
      end
  end.

(* runs until an instruction raises; returns the state reached and whether it raised *)
Fixpoint exec (D : ckind -> bool) (s : state) (p : list instr) : state * bool :=
  match p with
  | [] => (s, false)
  | i :: r => match exec1 D s i with Some s' => exec D s' r | None => (s, true) end
  end.

(* _write_field_or_domain, as it stands: checks, copy, conform (CF >= 1.8), then the rest *)
Definition writer_prog (cf18 : bool) (later : list instr) : list instr :=
  [IInspect; ICopy] ++ (if cf18 then [IConform] else []) ++ later.

(* seeded change 3: the copy deferred until after the early acceptance checks *)
Definition writer_prog_deferred_copy (cf18 : bool) (later : list instr) : list instr :=
  [IInspect] ++ (if cf18 then [IConform] else []) ++ [ICopy] ++ later.

(* for f in fields: self._write_field_or_domain(f) *)
Fixpoint write_all_d (D : ckind -> bool) (prog : list instr) (h : heap) (n : nat) (fields : list obj)
  : heap * nat * bool :=
  match fields with
  | [] => (h, n, false)
  | f :: r =>
      let '(s, err) := exec D (mkS h n f) prog in
      if err then (s_heap s, s_next s, true) else write_all_d D prog (s_heap s) (s_next s) r
  end.

(* the code as it stands: every component is copied *)
Definition write_all := write_all_d deep_copied.

(* no mutating instruction before the first copy *)
Fixpoint copy_first (p : list instr) : bool :=
  match p with
  | [] => true
  | IInspect :: r => copy_first r
  | ICopy :: _ => true
  | _ => false
  end.

(* ---- proofs ------------------------------------------------------------------------------ *)
Definition fresh_from (n0 : nat) (o : obj) : Prop := forall a, In a (obj_addrs o) -> (n0 <= a)%nat.
Definition agree (n0 : nat) (h h' : heap) : Prop := forall a, (a < n0)%nat -> hget h' a = hget h a.

Lemma agree_refl n h : agree n h h. Proof. intros a _. reflexivity. Qed.
Lemma agree_trans n h1 h2 h3 : agree n h1 h2 -> agree n h2 h3 -> agree n h1 h3.
Proof. intros A B a L. rewrite B, A; auto. Qed.

Lemma hget_hset_neq h a b p : a <> b -> hget (hset h b p) a = hget h a.
Proof. intro N. simpl. destruct (Nat.eqb a b) eqn:E; [apply Nat.eqb_eq in E; congruence|reflexivity]. Qed.

Lemma agree_hset n0 h a p : (n0 <= a)%nat -> agree n0 h (hset h a p).
Proof. intros L b Lb. apply hget_hset_neq. lia. Qed.

Lemma set_all_agree n0 l out : forall h, (forall a, In a l -> (n0 <= a)%nat) -> agree n0 h (set_all h l out).
Proof.
  unfold set_all. induction l as [|a r IH]; intros h F; simpl; [apply agree_refl|].
  eapply agree_trans; [apply (agree_hset n0 h a); apply F; left; reflexivity|].
  apply IH. intros b Hb. apply F. right. exact Hb.
Qed.

Lemma agree_le n m h h' : (n <= m)%nat -> agree m h h' -> agree n h h'.
Proof. intros L A a La. apply A. lia. Qed.

Ltac splits := repeat match goal with |- _ /\ _ => split end.

Lemma copy_opt_spec n0 h n o h' n' o' :
  (n0 <= n)%nat -> copy_opt (h, n) o = ((h', n'), o') ->
  agree n0 h h' /\ (n <= n')%nat /\ (forall a, In a (opt_addrs o') -> (n0 <= a)%nat).
Proof.
  intros L H. destruct o as [a|]; simpl in H; inversion H; subst; splits.
  - apply agree_hset. exact L.
  - lia.
  - intros b [<-|[]]. exact L.
  - apply agree_refl.
  - lia.
  - intros b [].
Qed.

Lemma copy_geo_spec n0 l : forall h n h' n' l',
  (n0 <= n)%nat -> copy_geo (h, n) l = ((h', n'), l') ->
  agree n0 h h' /\ (n <= n')%nat /\ (forall k a, In a (geo_addrs k l') -> (n0 <= a)%nat).
Proof.
  induction l as [|g r IH]; intros h n h' n' l' L H; simpl in H.
  - inversion H; subst. splits; [apply agree_refl|lia|intros k a []].
  - destruct (copy_opt (h, n) (g_nc g)) as [[h1 n1] a1] eqn:E1.
    destruct (copy_opt (h1, n1) (g_pnc g)) as [[h2 n2] a2] eqn:E2.
    destruct (copy_opt (h2, n2) (g_ring g)) as [[h3 n3] a3] eqn:E3.
    destruct (copy_geo (h3, n3) r) as [[h4 n4] r'] eqn:E4.
    inversion H; subst.
    apply (copy_opt_spec n0) in E1 as (A1 & L1 & F1); [|exact L].
    apply (copy_opt_spec n0) in E2 as (A2 & L2 & F2); [|lia].
    apply (copy_opt_spec n0) in E3 as (A3 & L3 & F3); [|lia].
    apply IH in E4 as (A4 & L4 & F4); [|lia].
    splits.
    + eapply agree_trans; [|exact A4]. eapply agree_trans; [|exact A3]. eapply agree_trans; eauto.
    + lia.
    + intros k a Ha. unfold geo_addrs in Ha. simpl in Ha. apply in_app_or in Ha as [Ha|Ha].
      * destruct k as [|[|k]]; simpl in Ha; auto.
      * eapply F4. exact Ha.
Qed.

Lemma copy_list_spec D n0 l : (forall k, D k = true) -> forall h n h' n' l',
  (n0 <= n)%nat -> copy_list D (h, n) l = ((h', n'), l') ->
  agree n0 h h' /\ (n <= n')%nat /\ (forall a, In a (map snd l') -> (n0 <= a)%nat).
Proof.
  intro HD. induction l as [|[k x] r IH]; intros h n h' n' l' L H; simpl in H.
  - inversion H; subst. splits; [apply agree_refl|lia|intros a []].
  - rewrite HD in H. destruct (copy_list D (hset h n (hget h x), S n) r) as [[h1 n1] r'] eqn:E.
    inversion H; subst. apply IH in E as (A & L1 & F); [|lia]. splits.
    + eapply agree_trans; [apply agree_hset; exact L|exact A].
    + lia.
    + intros a [<-|Ha]; [exact L|apply F; exact Ha].
Qed.

Lemma copy_obj_spec D n0 h n o h' n' o' : (forall k, D k = true) ->
  (n0 <= n)%nat -> copy_obj D (h, n) o = ((h', n'), o') ->
  agree n0 h h' /\ (n <= n')%nat /\ fresh_from n0 o'.
Proof.
  intros HD L H. unfold copy_obj in H.
  destruct (copy_geo (h, n) (o_geo o)) as [[h1 n1] g] eqn:E1.
  destruct (copy_list D (h1, n1) (o_other o)) as [[h2 n2] l] eqn:E2.
  inversion H; subst.
  apply (copy_geo_spec n0) in E1 as (A1 & L1 & F1); [|exact L].
  apply (copy_list_spec D n0 _ HD) in E2 as (A2 & L2 & F2); [|lia].
  splits; [eapply agree_trans; eauto|lia|].
  intros a Ha. unfold obj_addrs, kind_addrs in Ha. simpl in Ha.
  repeat (apply in_app_or in Ha as [Ha|Ha]); eauto.
Qed.

Lemma conform_agree n0 h o h' :
  fresh_from n0 o -> conform h o = Some h' -> agree n0 h h'.
Proof.
  intros F H. unfold conform in H.
  destruct (collect_all h (kind_addrs 0 o)); [|discriminate].
  destruct (collect_all h (kind_addrs 1 o)); [|discriminate].
  destruct (collect_all h (kind_addrs 2 o)); [|discriminate].
  inversion H; subst.
  assert (Fk : forall k, (k < 3)%nat -> forall a, In a (kind_addrs k o) -> (n0 <= a)%nat).
  { intros k Lk a Ha. apply F. unfold obj_addrs.
    destruct k as [|[|[|k]]]; [| | |lia].
    - apply in_or_app. left. exact Ha.
    - apply in_or_app. right. apply in_or_app. left. exact Ha.
    - apply in_or_app. right. apply in_or_app. right. apply in_or_app. left. exact Ha. }
  eapply agree_trans; [eapply agree_trans|]; apply set_all_agree; apply Fk; lia.
Qed.

(* after the copy: every step keeps the caller's objects *)
Lemma exec1_fresh D n0 s i s' : (forall k, D k = true) ->
  fresh_from n0 (s_cur s) -> (n0 <= s_next s)%nat -> exec1 D s i = Some s' ->
  agree n0 (s_heap s) (s_heap s') /\ fresh_from n0 (s_cur s') /\ (n0 <= s_next s')%nat.
Proof.
  intros HD F L H. destruct i; simpl in H.
  - inversion H; subst. splits; [apply agree_refl|exact F|exact L].
  - destruct (copy_obj D (s_heap s, s_next s) (s_cur s)) as [[h n] o] eqn:E. inversion H; subst. simpl.
    apply (copy_obj_spec D n0) in E as (A & L1 & F1); [|exact HD|exact L]. splits; [exact A|exact F1|lia].
  - destruct (conform (s_heap s) (s_cur s)) as [h|] eqn:E; [|discriminate]. inversion H; subst. simpl.
    splits; [eapply conform_agree; eauto|exact F|exact L].
  - destruct (nth_error (map snd (o_other (s_cur s))) i) as [a|] eqn:E; inversion H; subst; simpl.
    + splits; [|exact F|exact L]. apply agree_hset. apply F. unfold obj_addrs.
      apply in_or_app. right. apply in_or_app. right. apply in_or_app. right. eapply nth_error_In; eauto.
    + splits; [apply agree_refl|exact F|exact L].
Qed.

Lemma exec_fresh D n0 p : (forall k, D k = true) -> forall s s' err,
  fresh_from n0 (s_cur s) -> (n0 <= s_next s)%nat -> exec D s p = (s', err) ->
  agree n0 (s_heap s) (s_heap s') /\ (n0 <= s_next s')%nat.
Proof.
  intro HD. induction p as [|i r IH]; intros s s' err F L H; simpl in H.
  - inversion H; subst. split; [apply agree_refl|exact L].
  - destruct (exec1 D s i) as [s1|] eqn:E.
    + apply (exec1_fresh D n0) in E as (A & F1 & L1); auto.
      apply IH in H as (A2 & L2); auto. split; [eapply agree_trans; eauto|exact L2].
    + inversion H; subst. split; [apply agree_refl|exact L].
Qed.

(* a program that copies before it changes anything keeps every object the caller holds *)
Lemma exec_copy_first D p : (forall k, D k = true) -> forall s s' err,
  copy_first p = true -> exec D s p = (s', err) ->
  agree (s_next s) (s_heap s) (s_heap s') /\ (s_next s <= s_next s')%nat.
Proof.
  intro HD. induction p as [|i r IH]; intros s s' err C H; simpl in H.
  - inversion H; subst. split; [apply agree_refl|lia].
  - destruct i; simpl in C; try discriminate.
    + simpl in H. eapply IH; eassumption.
    + simpl in H. destruct (copy_obj D (s_heap s, s_next s) (s_cur s)) as [[h n] o] eqn:E.
      apply (copy_obj_spec D (s_next s)) in E as (A & L1 & F1); [|exact HD|lia].
      apply (exec_fresh D (s_next s)) in H as (A2 & L2); simpl; auto.
      split; [eapply agree_trans; eauto|exact L2].
Qed.

Lemma inputs_unchanged D prog fields : (forall k, D k = true) -> forall h n h' n' err,
  copy_first prog = true -> write_all_d D prog h n fields = (h', n', err) ->
  agree n h h' /\ (n <= n')%nat.
Proof.
  intro HD. induction fields as [|f r IH]; intros h n h' n' err C H; simpl in H.
  - inversion H; subst. split; [apply agree_refl|lia].
  - destruct (exec D (mkS h n f) prog) as [s e] eqn:E.
    apply exec_copy_first in E as (A & L); [|exact HD|exact C]. simpl in A, L.
    destruct e.
    + inversion H; subst. split; [exact A|exact L].
    + apply IH in H as (A2 & L2); [|exact C]. split; [|lia].
      eapply agree_trans; [exact A|]. eapply agree_le; eauto.
Qed.

Lemma writer_prog_copy_first cf18 later : copy_first (writer_prog cf18 later) = true.
Proof. reflexivity. Qed.

(* the caller's objects: every address below [n] reads the same after the
   writes of any number of constructs, whether or not one of them raised *)
Lemma writer_keeps_inputs cf18 later fields h n h' n' err :
  write_all (writer_prog cf18 later) h n fields = (h', n', err) ->
  forall a, (a < n)%nat -> hget h' a = hget h a.
Proof.
  intros H. unfold write_all in H. eapply inputs_unchanged in H as [A _]; [exact A|reflexivity|apply writer_prog_copy_first].
Qed.

(* seeded change 3 refuted: with the copy deferred, the caller's interior ring
   variable at address 1 gains the property that only the one at address 0 had *)
Definition ex_heap : heap := [(0%nat, [(1, 7)]); (1%nat, [])].
Definition ex_obj : obj := mkO [mkG None None (Some 0%nat); mkG None None (Some 1%nat)] [].

Lemma deferred_copy_refuted :
  exists h', write_all (writer_prog_deferred_copy true []) ex_heap 2%nat [ex_obj] = (h', 4%nat, false)
             /\ hget h' 1%nat <> hget ex_heap 1%nat.
Proof. eexists. split; [vm_compute; reflexivity|vm_compute; discriminate]. Qed.

Lemma writer_keeps_inputs_example :
  exists h', write_all (writer_prog true []) ex_heap 2%nat [ex_obj] = (h', 4%nat, false)
             /\ hget h' 0%nat = [(1, 7)] /\ hget h' 1%nat = [] /\ hget h' 3%nat = [(1, 7)].
Proof. eexists. split; [vm_compute; reflexivity|vm_compute; auto]. Qed.

(* seeded change (second round) refuted: the list variable shared between a construct and the
   writer's copy of it; the writer's nc_set_variable on the copy's list variable (ISet 0: key
   0 = the netCDF variable name) renames the caller's *)
Definition ex_heap2 : heap := [(0%nat, [(0, 5)])].
Definition ex_obj2 : obj := mkO [] [(KList, 0%nat)].

Lemma shared_list_refuted :
  exists h', write_all_d list_shared (writer_prog true [ISet 0 0 6]) ex_heap2 1%nat [ex_obj2] = (h', 1%nat, false)
             /\ hget h' 0%nat <> hget ex_heap2 0%nat.
Proof. eexists. split; [vm_compute; reflexivity|vm_compute; discriminate]. Qed.

Lemma deep_list_example :
  exists h', write_all (writer_prog true [ISet 0 0 6]) ex_heap2 1%nat [ex_obj2] = (h', 2%nat, false)
             /\ hget h' 0%nat = [(0, 5)] /\ hget h' 1%nat = [(0, 6); (0, 5)].
Proof. eexists. split; [vm_compute; reflexivity|vm_compute; auto]. Qed.
