(* C10 - evaluation entry points for the correspondence harness. *)
From CfdmV Require Import Common.Base C10.Model.
Open Scope Z_scope.

Definition oerr_eqb (a b : option errk) : bool := option_eqb errk_eqb a b.

(* What the harness observed of one construct: its tree, plus the two
   aggregates the implementation reports for it. *)
Definition agg_ok (f : field) (orig files : list fname) : bool :=
  seteqb (field_orig f) orig && seteqb (field_files f) files.

(* One derivation step: the operation, the register it wrote, the tree the
   implementation showed in that register afterwards, and what
   get_original_filenames() / get_filenames() returned for it.  The observed
   tree must refine the model's (arrays may have been brought into memory,
   nothing else may differ); the run continues from the observed tree. *)
Definition step_case := (op * nat * field * list fname * list fname)%type.

Fixpoint run_steps (e : list field) (l : list step_case) : option (list field) :=
  match l with
  | [] => Some e
  | (o, reg, obs, orig, files) :: r =>
      let e1 := step e o in
      match nth_error e1 reg with
      | Some p =>
          if field_refb obs p && agg_ok obs orig files then run_steps (set_nth reg obs e1) r
          else None
      | None => None
      end
  end.

(* effect on a tracked name: 0 untouched, 1 altered or created, 2 absent now *)
Definition effect (fs fs' : fsys) (n : fname) : Z :=
  let a := obind (Some (real fs n)) (fun p => zassoc p (regs fs)) in
  let b := zassoc (real fs' n) (regs fs') in
  match a, b with
  | None, None => 0
  | Some (s, k), Some (s', k') => if Z.eqb s s' && Nat.eqb k k' then 0 else 1
  | None, Some _ => 1
  | Some _, None => 2
  end.

(* a case: initial registers (as read), their reported aggregates, the steps,
   then one write: file system, registers written, target name, options, the
   tracked names with the observed effects, the observed error class (None =
   returned), and whether the error class is to be compared (it is not for
   errors raised while variables are written). *)
Definition check_case
  (cs : list (field * list fname * list fname) * list step_case *
        (fsys * list nat * fname * wopts * list (fname * Z) * option errk)) : bool :=
  let '(init, steps, (fs, sel, x, o, effs, err)) := cs in
  forallb (fun t => let '(f, orig, files) := t in agg_ok f orig files) init &&
  match run_steps (map (fun t => fst (fst t)) init) steps with
  | None => false
  | Some e =>
      let fields := flat_map (fun i => match nth_error e i with Some f => [f] | None => [] end) sel in
      let (fs', r) := write_model guard fs fields x o 1000 in
      match w_fault o, r, err with
      | FLate, Some OtherErr, Some _ => true
      | _, _, _ => oerr_eqb r err
      end &&
      forallb (fun ne => Z.eqb (effect fs fs' (fst ne)) (snd ne)) effs
  end.

(* the same with the guard and get_filenames as they were before the repair *)
Definition check_write_old
  (cs : list field * (fsys * fname * wopts * list (fname * Z) * option errk)) : bool :=
  let '(fields, (fs, x, o, effs, err)) := cs in
  let (fs', r) := write_model guard_old fs fields x o 1000 in
  match w_fault o, r, err with
  | FLate, Some OtherErr, Some _ => true
  | _, _, _ => oerr_eqb r err
  end &&
  forallb (fun ne => Z.eqb (effect fs fs' (fst ne)) (snd ne)) effs.

(* diagnosis of a disagreement, for the replay file: 0 = agrees; 1 = the
   aggregates reported for an initial construct differ from the model's;
   10+k = step k (from 0) is not explained by the model (500+k: its
   aggregates); 1000 = error class; 1001 = file effects *)
Fixpoint diag_steps (e : list field) (l : list step_case) (k : nat) : nat + list field :=
  match l with
  | [] => inr e
  | (o, reg, obs, orig, files) :: r =>
      let e1 := step e o in
      match nth_error e1 reg with
      | Some p =>
          if negb (field_refb obs p) then inl (10 + k)%nat
          else if negb (agg_ok obs orig files) then inl (500 + k)%nat
          else diag_steps (set_nth reg obs e1) r (S k)
      | None => inl (10 + k)%nat
      end
  end.

Definition diag_case
  (cs : list (field * list fname * list fname) * list step_case *
        (fsys * list nat * fname * wopts * list (fname * Z) * option errk)) : nat :=
  let '(init, steps, (fs, sel, x, o, effs, err)) := cs in
  if negb (forallb (fun t => let '(f, orig, files) := t in agg_ok f orig files) init) then 1%nat
  else match diag_steps (map (fun t => fst (fst t)) init) steps 0 with
  | inl n => n
  | inr e =>
      let fields := flat_map (fun i => match nth_error e i with Some f => [f] | None => [] end) sel in
      let (fs', r) := write_model guard fs fields x o 1000 in
      if negb (match w_fault o, r, err with
               | FLate, Some OtherErr, Some _ => true
               | _, _, _ => oerr_eqb r err
               end) then 1000%nat
      else if negb (forallb (fun ne => Z.eqb (effect fs fs' (fst ne)) (snd ne)) effs) then 1001%nat
      else 0%nat
  end.
