(* C10 - evaluation entry points for the correspondence harness. *)
From CfdmV Require Import Common.Base C10.Model C10.Fs C10.Ident.
Open Scope Z_scope.

Definition oerr_eqb (a b : option errk) : bool := option_eqb errk_eqb a b.

(* What the harness observed of one construct: its tree, plus the two
   aggregates the implementation reports for it. *)
Definition agg_ok (f : field) (orig files : list fname) : bool :=
  seteqb (field_orig f) orig && seteqb (field_files f) files.

(* One derivation step: the operation, the register it wrote, the tree the
   implementation showed in that register afterwards, and what
   get_original_filenames() / get_filenames() returned for it.  The observed
   tree must refine the model's (arrays may have been brought into memory,
   nothing else may differ); the run continues from the observed tree. *)
Definition step_case := (op * nat * field * list fname * list fname)%type.

Fixpoint run_steps (e : list field) (l : list step_case) : option (list field) :=
  match l with
  | [] => Some e
  | (o, reg, obs, orig, files) :: r =>
      let e1 := step e o in
      match nth_error e1 reg with
      | Some p =>
          if field_refb obs p && agg_ok obs orig files then run_steps (set_nth reg obs e1) r
          else None
      | None => None
      end
  end.

Definition node_eqb (a b : node) : bool :=
  match a, b with
  | NFile s k, NFile s' k' => Z.eqb s s' && Nat.eqb k k'
  | NLink t, NLink t' => path_eqb t t'
  | _, _ => false
  end.

(* effect on a tracked directory entry (canonical path): 0 untouched,
   1 altered or created, 2 absent now *)
Definition effect (nd nd' : store) (k : path) : Z :=
  match passoc k nd, passoc k nd' with
  | None, None => 0
  | Some a, Some b => if node_eqb a b then 0 else 1
  | None, Some _ => 1
  | Some _, None => 2
  end.

(* the external fields the writer derives: Field.convert of the named cell
   measures of the written registers *)
Definition efields_of (e : list field) (l : list (nat * string * list string)) : list field :=
  flat_map (fun t => let '(i, k, keep) := t in
                     match nth_error e i with
                     | Some f => match convert f k keep with Some g => [g] | None => [] end
                     | None => []
                     end) l.

(* a case: initial registers (as read), their reported aggregates, the steps,
   then one write: file system, registers written, external cell measures,
   target, options, external file, the tracked entries with the observed
   effects, the observed error class (None = returned). *)
Definition wcase := (fsys * env * list nat * list (nat * string * list string) * (rname * target) * wopts
                     * option (rname * target) * list (path * Z) * option errk)%type.

Definition target_eqb (a b : target) : bool := Z.eqb (t_name a) (t_name b) && path_eqb (t_path a) (t_path b).

(* the name as given expands (Fs.expand: os.path.expandvars / expanduser / abspath) to the
   absolute name that the harness computed with the os.path functions *)
Definition given_ok (ev : env) (fs : fsys) (g : rname * target) : bool :=
  target_eqb (target_of ev fs (fst g)) (snd g).

Definition write_ok (e : list field) (w : wcase) : bool * bool :=
  let '(fs, ev, sel, efsel, x, o, ext, effs, err) := w in
  let fields := flat_map (fun i => match nth_error e i with Some f => [f] | None => [] end) sel in
  let q := mkGQ fields (efields_of e efsel) (fst x) (option_map fst ext) in
  let (fs', r) := write_given ev guard fs q o 1000 in
  (given_ok ev fs x && match ext with Some g => given_ok ev fs g | None => true end &&
   match w_fault o, r, err with
   | FLate, Some OtherErr, Some _ => true
   | _, _, _ => oerr_eqb r err
   end,
   (* an append that raises part-way may also raise before anything is
      appended (the in-memory copy of a construct that reads from the target,
      fix2-3, is made first and can fail for an inconsistent construct) *)
   let lenient := match w_mode o, w_fault o with MA, FLate => true | _, _ => false end in
   forallb (fun ne => Z.eqb (effect (nodes fs) (nodes fs') (fst ne)) (snd ne)
                      || (lenient && Z.eqb (snd ne) 0)) effs).

Definition check_case
  (cs : list (field * list fname * list fname) * list step_case * wcase) : bool :=
  let '(init, steps, w) := cs in
  forallb (fun t => let '(f, orig, files) := t in agg_ok f orig files) init &&
  match run_steps (map (fun t => fst (fst t)) init) steps with
  | None => false
  | Some e => let (a, b) := write_ok e w in a && b
  end.

(* diagnosis of a disagreement, for the replay file: 0 = agrees; 1 = the
   aggregates reported for an initial construct differ from the model's;
   10+k = step k (from 0) is not explained by the model (500+k: its
   aggregates); 1000 = error class; 1001 = file effects *)
Fixpoint diag_steps (e : list field) (l : list step_case) (k : nat) : nat + list field :=
  match l with
  | [] => inr e
  | (o, reg, obs, orig, files) :: r =>
      let e1 := step e o in
      match nth_error e1 reg with
      | Some p =>
          if negb (field_refb obs p) then inl (10 + k)%nat
          else if negb (agg_ok obs orig files) then inl (500 + k)%nat
          else diag_steps (set_nth reg obs e1) r (S k)
      | None => inl (10 + k)%nat
      end
  end.

Definition diag_case
  (cs : list (field * list fname * list fname) * list step_case * wcase) : nat :=
  let '(init, steps, w) := cs in
  if negb (forallb (fun t => let '(f, orig, files) := t in agg_ok f orig files) init) then 1%nat
  else match diag_steps (map (fun t => fst (fst t)) init) steps 0 with
  | inl n => n
  | inr e => let (a, b) := write_ok e w in
             if negb a then 1000%nat else if negb b then 1001%nat else 0%nat
  end.

(* ---- the writer's treatment of its inputs (Ident.v) ----------------------------------- *)
(* Per written construct: for every auxiliary coordinate the property lists
   of its node count / part node count / interior ring variables (None =
   absent), before the write.  The model lays them out in a heap, runs the
   writer, and predicts (a) whether conform_geometry_variables refuses, (b)
   the caller's property lists afterwards (unchanged).  Observed: the lists
   after the write and whether the write raised. *)
Definition gobs := list (option props * option props * option props).

Definition alloc_opt (hn : heap * nat) (p : option props) : (heap * nat) * option addr :=
  match p with
  | None => (hn, None)
  | Some ps => let '(h, n) := hn in ((hset h n ps, S n), Some n)
  end.

Fixpoint alloc_geo (hn : heap * nat) (l : gobs) : (heap * nat) * list gcoord :=
  match l with
  | [] => (hn, [])
  | (a, b, c) :: r =>
      let '(hn1, a') := alloc_opt hn a in
      let '(hn2, b') := alloc_opt hn1 b in
      let '(hn3, c') := alloc_opt hn2 c in
      let '(hn4, r') := alloc_geo hn3 r in
      (hn4, mkG a' b' c' :: r')
  end.

(* the list / count / index / bounds / interior ring variables of a construct: kind and
   property list (key of the netCDF variable name included) *)
Definition oobs := list (ckind * props).

Fixpoint alloc_others (hn : heap * nat) (l : oobs) : (heap * nat) * list (ckind * addr) :=
  match l with
  | [] => (hn, [])
  | (k, ps) :: r =>
      let '(h, n) := hn in
      let '(hn1, r') := alloc_others (hset h n ps, S n) r in
      (hn1, (k, n) :: r')
  end.

Fixpoint alloc_all (hn : heap * nat) (l : list (gobs * oobs)) : (heap * nat) * list obj :=
  match l with
  | [] => (hn, [])
  | (g, o) :: r =>
      let '(hn1, g') := alloc_geo hn g in
      let '(hn2, o') := alloc_others hn1 o in
      let '(hn3, r') := alloc_all hn2 r in
      (hn3, mkO g' o' :: r')
  end.

Definition props_eqb (a b : props) : bool :=
  list_eqb (fun x y => Z.eqb (fst x) (fst y) && Z.eqb (snd x) (snd y)) a b.

Definition read_opt (h : heap) (o : option addr) : option props :=
  match o with Some a => Some (hget h a) | None => None end.

Definition read_back (h : heap) (o : obj) : gobs :=
  map (fun g => (read_opt h (g_nc g), read_opt h (g_pnc g), read_opt h (g_ring g))) (o_geo o).

Definition oprops_eqb := option_eqb props_eqb.

Definition ckind_eqb (a b : ckind) : bool :=
  match a, b with
  | KList, KList | KCount, KCount | KIndex, KIndex | KBounds, KBounds | KRing, KRing | KOther, KOther => true
  | _, _ => false
  end.

Definition read_others (h : heap) (o : obj) : oobs := map (fun ka => (fst ka, hget h (snd ka))) (o_other o).

Definition oobs_eqb (a b : oobs) : bool :=
  list_eqb (fun x y => ckind_eqb (fst x) (fst y) && props_eqb (snd x) (snd y)) a b.

(* what the writer does to its copy after the copy: it names every list variable
   (_write_list_variable: nc_set_variable; key [kname] = the netCDF variable name) *)
Fixpoint renames (kname : Z) (l : list (ckind * addr)) (i : nat) : list instr :=
  match l with
  | [] => []
  | (KList, _) :: r => ISet i kname 999 :: renames kname r (S i)
  | _ :: r => renames kname r (S i)
  end.

Definition gobs_eqb (a b : gobs) : bool :=
  list_eqb (fun x y => let '(a1, a2, a3) := x in let '(b1, b2, b3) := y in
                       oprops_eqb a1 b1 && oprops_eqb a2 b2 && oprops_eqb a3 b3) a b.

(* (before, after, key of the netCDF name, cf18, raised, reached): [reached] = the write got
   as far as writing constructs (no refusal, no option error); then a conflict predicted by
   the model must have made the write raise, and in every case the caller's property lists
   and component names afterwards must be the model's (i.e. what they were) *)
Definition check_ident (cs : list (gobs * oobs) * list (gobs * oobs) * Z * bool * bool * bool) : bool :=
  let '(before, after, kname, cf18, raised, reached) := cs in
  let '((h, n), objs) := alloc_all ([], O) before in
  (* one program per construct: its own list variables are named *)
  let fix go (h : heap) (n : nat) (l : list obj) : heap * bool :=
      match l with
      | [] => (h, false)
      | o :: r =>
          let '(h', n', err) := write_all (writer_prog cf18 (renames kname (o_other o) O)) h n [o] in
          if err then (h', true) else go h' n' r
      end in
  let '(h', err) := go h n objs in
  (if reached && err then raised else true)
  && list_eqb (fun x y => gobs_eqb (fst x) (fst y) && oobs_eqb (snd x) (snd y))
              (map (fun o => (read_back h' o, read_others h' o)) objs) after.
