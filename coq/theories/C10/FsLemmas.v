(* C10 - proofs about the file-system model and the writer (Fs.v). *)
From CfdmV Require Import Common.Base C10.Model C10.Spec C10.Lemmas C10.Fs.
Open Scope Z_scope.

Ltac splits := repeat match goal with |- _ /\ _ => split end.

(* ---- paths and stores --------------------------------------------------------- *)
Lemma path_eqb_eq a b : path_eqb a b = true <-> a = b.
Proof. apply list_eqb_eq. intros x y. apply Z.eqb_eq. Qed.

Lemma path_eqb_refl a : path_eqb a a = true.
Proof. apply path_eqb_eq. reflexivity. Qed.

Lemma path_eqb_neq a b : a <> b -> path_eqb a b = false.
Proof. intro N. destruct (path_eqb a b) eqn:E; [apply path_eqb_eq in E; congruence|reflexivity]. Qed.

Lemma passoc_premove_eq k l : passoc k (premove k l) = None.
Proof.
  induction l as [|[a v] r IH]; simpl; [reflexivity|].
  destruct (path_eqb k a) eqn:E; [exact IH|]. simpl. rewrite E. exact IH.
Qed.

Lemma passoc_premove_neq k k' l : k <> k' -> passoc k (premove k' l) = passoc k l.
Proof.
  intro N. induction l as [|[a v] r IH]; simpl; [reflexivity|].
  destruct (path_eqb k' a) eqn:E1.
  - apply path_eqb_eq in E1. subst. rewrite (path_eqb_neq k a N). exact IH.
  - simpl. destruct (path_eqb k a); [reflexivity|exact IH].
Qed.

Lemma passoc_premove_some k k' l v : passoc k (premove k' l) = Some v -> passoc k l = Some v /\ k <> k'.
Proof.
  intro H. destruct (path_eqb k k') eqn:E.
  - apply path_eqb_eq in E. subst. rewrite passoc_premove_eq in H. discriminate.
  - assert (N : k <> k') by (intro; subst; rewrite path_eqb_refl in E; discriminate).
    rewrite passoc_premove_neq in H by exact N. auto.
Qed.

Lemma prefixb_app a s : prefixb a (a ++ s) = true.
Proof. induction a; simpl; [reflexivity|]. rewrite Z.eqb_refl. exact IHa. Qed.

Lemma prefixb_spec a b : prefixb a b = true -> exists s, b = a ++ s.
Proof.
  revert b. induction a as [|x a IH]; intros b H; simpl in *.
  - exists b. reflexivity.
  - destruct b as [|y b]; [discriminate|]. apply andb_true_iff in H as [E H].
    apply Z.eqb_eq in E. subst. apply IH in H as [s ->]. exists s. reflexivity.
Qed.

(* ---- resolution ---------------------------------------------------------------- *)
Lemma walk_app nd cur p q : walk nd cur (p ++ q) = walk nd (walk nd cur p) q.
Proof.
  revert cur. induction p as [|c r IH]; intro cur; simpl; [reflexivity|].
  destruct (passoc (cur ++ [c]) nd) as [[s a|t]|]; apply IH.
Qed.

(* what a lookup contributes to resolution: only whether it is a link *)
Definition linkview (nd : store) (k : path) : option path :=
  match passoc k nd with Some (NLink t) => Some t | _ => None end.

Lemma walk_linkview nd nd' :
  (forall k, linkview nd k = linkview nd' k) -> forall p cur, walk nd cur p = walk nd' cur p.
Proof.
  intros H p. induction p as [|c r IH]; intro cur; simpl; [reflexivity|].
  pose proof (H (cur ++ [c])) as Hk. unfold linkview in Hk.
  destruct (passoc (cur ++ [c]) nd) as [[s a|t]|]; destruct (passoc (cur ++ [c]) nd') as [[s' a'|t']|];
    try discriminate; try apply IH. inversion Hk. subst. apply IH.
Qed.

(* below a leaf (a file or link key) nothing is found: the rest is appended *)
Lemma walk_below nd k s r :
  tree_wf nd -> (exists v, passoc k nd = Some v) ->
  (forall k', (exists v, passoc k' nd = Some v) -> prefixb k k' = true -> k' = k) ->
  walk nd (k ++ s) r = (k ++ s) ++ r.
Proof.
  intros W K B. revert s. induction r as [|c r IH]; intro s; simpl; [rewrite app_nil_r; reflexivity|].
  destruct (passoc ((k ++ s) ++ [c]) nd) as [v|] eqn:E.
  - exfalso. assert (Hk : (k ++ s) ++ [c] = k).
    { apply B; [eauto|]. rewrite <- app_assoc. apply prefixb_app. }
    rewrite <- app_assoc in Hk. rewrite <- (app_nil_r k) in Hk at 2. apply app_inv_head in Hk.
    destruct s; discriminate.
  - rewrite <- (app_assoc k s [c]). rewrite IH. rewrite <- !app_assoc. reflexivity.
Qed.

Lemma leaf_no_below nd k :
  tree_wf nd -> (exists v, passoc k nd = Some v) ->
  forall k', (exists v, passoc k' nd = Some v) -> prefixb k k' = true -> k' = k.
Proof. intros W [v K] k' [v' K'] P. symmetry. eapply W; eauto. Qed.

(* removing a link: a name resolves as before, or to something that was not
   a regular file *)
Lemma walk_unlink nd L t :
  tree_wf nd -> passoc L nd = Some (NLink t) ->
  forall p cur, walk (premove L nd) cur p = walk nd cur p
                \/ is_regular nd (walk (premove L nd) cur p) = false.
Proof.
  intros W HL p. induction p as [|c r IH]; intro cur; simpl; [left; reflexivity|].
  destruct (path_eqb (cur ++ [c]) L) eqn:E.
  - apply path_eqb_eq in E. rewrite E. rewrite passoc_premove_eq. right.
    (* in the store without L nothing lies at or below L *)
    assert (Wk : walk (premove L nd) (L ++ []) r = (L ++ []) ++ r).
    { clear IH. generalize (@nil comp) as s. induction r as [|c' r' IH']; intro s; simpl;
        [rewrite app_nil_r; reflexivity|].
      destruct (passoc ((L ++ s) ++ [c']) (premove L nd)) as [v|] eqn:E2.
      - apply passoc_premove_some in E2 as [E2 N]. exfalso. apply N. symmetry.
        eapply W; eauto. rewrite <- app_assoc. apply prefixb_app.
      - rewrite <- (app_assoc L s [c']). rewrite IH'. rewrite <- !app_assoc. reflexivity. }
    rewrite app_nil_r in Wk. rewrite Wk. unfold is_regular.
    destruct (passoc (L ++ r) nd) as [[s a|t']|] eqn:E3; try reflexivity.
    exfalso. assert (L = L ++ r) by (eapply W; eauto; apply prefixb_app).
    rewrite <- H in E3. congruence.
  - assert (N : cur ++ [c] <> L) by (intro; subst; rewrite path_eqb_refl in E; discriminate).
    rewrite passoc_premove_neq by exact N.
    destruct (passoc (cur ++ [c]) nd) as [[s a|t']|]; apply IH.
Qed.

(* ... and a name that resolved to a regular file other than the link's
   target resolves to it still *)
Lemma walk_unlink_stable nd L t K :
  tree_wf nd -> passoc L nd = Some (NLink t) -> is_regular nd t = true ->
  is_regular nd K = true -> K <> t ->
  forall p cur, walk nd cur p = K -> walk (premove L nd) cur p = K.
Proof.
  intros W HL Rt RK N p. induction p as [|c r IH]; intros cur H; simpl in *; [exact H|].
  destruct (path_eqb (cur ++ [c]) L) eqn:E.
  - exfalso. apply path_eqb_eq in E. rewrite E, HL in H.
    assert (Ht : exists v, passoc t nd = Some v).
    { unfold is_regular in Rt. destruct (passoc t nd); [eauto|discriminate]. }
    pose proof (walk_below nd t [] r W Ht (leaf_no_below nd t W Ht)) as Wk.
    destruct r as [|c' r']; [simpl in H; congruence|].
    rewrite app_nil_r in Wk. rewrite Wk in H.
    unfold is_regular in RK. destruct (passoc K nd) as [v|] eqn:EK; [|discriminate].
    destruct Ht as [vt Et]. assert (t = K) by (eapply W; eauto; rewrite <- H; apply prefixb_app).
    congruence.
  - assert (N' : cur ++ [c] <> L) by (intro; subst; rewrite path_eqb_refl in E; discriminate).
    rewrite passoc_premove_neq by exact N'.
    destruct (passoc (cur ++ [c]) nd) as [[s a|t']|]; apply IH; exact H.
Qed.

Lemma linkview_premove_nonlink nd L :
  linkview nd L = None -> forall k, linkview (premove L nd) k = linkview nd k.
Proof.
  intros H k. unfold linkview in *. destruct (path_eqb k L) eqn:E.
  - apply path_eqb_eq in E. subst. rewrite passoc_premove_eq. symmetry. exact H.
  - rewrite passoc_premove_neq; [reflexivity|]. intro; subst. rewrite path_eqb_refl in E. discriminate.
Qed.

Lemma passoc_create_neq nd k stamp p : p <> k -> passoc p (create nd k stamp) = passoc p nd.
Proof.
  intro N. unfold create. simpl. rewrite (path_eqb_neq p k N). apply passoc_premove_neq. exact N.
Qed.

Lemma linkview_create nd k stamp :
  linkview nd k = None -> forall p, linkview (create nd k stamp) p = linkview nd p.
Proof.
  intros H p. unfold linkview in *. destruct (path_eqb p k) eqn:E.
  - apply path_eqb_eq in E. subst. unfold create. simpl. rewrite path_eqb_refl. symmetry. exact H.
  - rewrite passoc_create_neq; [reflexivity|]. intro; subst. rewrite path_eqb_refl in E. discriminate.
Qed.

Lemma linkview_append nd p : forall k, linkview (append nd p) k = linkview nd k.
Proof.
  intro k. unfold append. destruct (passoc (realpath nd p) nd) as [[s a|t]|] eqn:E; try reflexivity.
  unfold linkview. simpl. destruct (path_eqb k (realpath nd p)) eqn:E2.
  - apply path_eqb_eq in E2. subst. rewrite E. reflexivity.
  - rewrite passoc_premove_neq; [reflexivity|]. intro; subst. rewrite path_eqb_refl in E2. discriminate.
Qed.

(* the entry and the file of a name *)
Lemma realpath_entry nd p :
  p <> [] ->
  realpath nd p = match passoc (entry nd p) nd with Some (NLink t) => t | _ => entry nd p end.
Proof.
  intro N. unfold entry, realpath. destruct p as [|c0 r0]; [congruence|].
  rewrite (app_removelast_last 0 N) at 1. rewrite walk_app. simpl.
  destruct (passoc (walk nd [] (removelast (c0 :: r0)) ++ [last (c0 :: r0) 0]) nd) as [[s a|t]|]; reflexivity.
Qed.

(* ---- well-formedness is kept -------------------------------------------------- *)
Lemma tree_wf_premove nd L : tree_wf nd -> tree_wf (premove L nd).
Proof.
  intros W k k' v v' H H' P. apply passoc_premove_some in H as [H _]. apply passoc_premove_some in H' as [H' _].
  eapply W; eauto.
Qed.

Lemma prefixb_refl a : prefixb a a = true.
Proof. induction a; simpl; [reflexivity|]. rewrite Z.eqb_refl. exact IHa. Qed.

Lemma passoc_In k nd v : passoc k nd = Some v -> exists k', In (k', v) nd /\ k = k'.
Proof.
  induction nd as [|[a w] r IH]; simpl; [discriminate|].
  destruct (path_eqb k a) eqn:E.
  - intro H. inversion H. subst. apply path_eqb_eq in E. exists a. auto.
  - intro H. apply IH in H as (k' & I & Ek). exists k'. auto.
Qed.

Lemma tree_wf_create nd k stamp : tree_wf nd -> creatable nd k = true -> tree_wf (create nd k stamp).
Proof.
  intros W C a b v v' Ha Hb P. unfold creatable in C. apply andb_true_iff in C as [C _].
  rewrite forallb_forall in C.
  assert (Q : forall c w, passoc c nd = Some w -> c <> k -> prefixb c k = false /\ prefixb k c = false).
  { intros c w Hc Nc. apply passoc_In in Hc as (c' & I & ->). specialize (C _ I). simpl in C.
    rewrite (path_eqb_neq c' k Nc) in C. simpl in C. apply negb_true_iff in C.
    apply orb_false_iff in C. exact C. }
  destruct (path_eqb a k) eqn:Ea; destruct (path_eqb b k) eqn:Eb.
  - apply path_eqb_eq in Ea, Eb. congruence.
  - apply path_eqb_eq in Ea. subst a.
    assert (Nb : b <> k) by (intro; subst; rewrite path_eqb_refl in Eb; discriminate).
    rewrite passoc_create_neq in Hb by exact Nb. destruct (Q _ _ Hb Nb) as [_ Q2]. congruence.
  - apply path_eqb_eq in Eb. subst b.
    assert (Na : a <> k) by (intro; subst; rewrite path_eqb_refl in Ea; discriminate).
    rewrite passoc_create_neq in Ha by exact Na. destruct (Q _ _ Ha Na) as [Q1 _]. congruence.
  - assert (Na : a <> k) by (intro; subst; rewrite path_eqb_refl in Ea; discriminate).
    assert (Nb : b <> k) by (intro; subst; rewrite path_eqb_refl in Eb; discriminate).
    rewrite passoc_create_neq in Ha by exact Na. rewrite passoc_create_neq in Hb by exact Nb.
    eapply W; eauto.
Qed.

Lemma tree_wf_append nd p : tree_wf nd -> tree_wf (append nd p).
Proof.
  intros W. unfold append. destruct (passoc (realpath nd p) nd) as [[s a|t]|] eqn:E; try exact W.
  intros x y v v' Hx Hy P.
  assert (Q : forall c w, passoc c ((realpath nd p, NFile s (S a)) :: premove (realpath nd p) nd) = Some w ->
                          exists w', passoc c nd = Some w').
  { intros c w. simpl. destruct (path_eqb c (realpath nd p)) eqn:Ec.
    - apply path_eqb_eq in Ec. subst. eauto.
    - intro H. apply passoc_premove_some in H as [H _]. eauto. }
  apply Q in Hx as [wx Hx]. apply Q in Hy as [wy Hy]. eapply W; eauto.
Qed.

(* ---- one pass of the writer ----------------------------------------------------- *)
Lemma regular_not_link nd K t : is_regular nd K = true -> passoc K nd = Some (NLink t) -> False.
Proof. unfold is_regular. intros H E. rewrite E in H. discriminate. Qed.

(* os.remove(x) of an existing file x does not remove any other regular file *)
Lemma remove_keeps nd p K :
  is_regular nd K = true -> K <> realpath nd p ->
  passoc K (premove (entry nd p) nd) = passoc K nd.
Proof.
  intros RK N. apply passoc_premove_neq. intro E. destruct p as [|c0 r0].
  - apply N. rewrite E. reflexivity.
  - assert (NE : c0 :: r0 <> []) by discriminate.
    pose proof (realpath_entry nd (c0 :: r0) NE) as R. rewrite <- E in R.
    destruct (passoc K nd) as [[s a|t]|] eqn:EK; try (apply N; rewrite R; reflexivity).
    eapply regular_not_link; eauto.
Qed.

(* after os.remove(x), x names the entry that was removed or - through the
   unchanged directory part - what it named before; never another regular file *)
Lemma realpath_after_remove nd p K :
  tree_wf nd -> is_regular nd K = true -> K <> realpath nd p ->
  K <> realpath (premove (entry nd p) nd) p.
Proof.
  intros W RK N. destruct (passoc (entry nd p) nd) as [[s a|t]|] eqn:E.
  - unfold realpath. rewrite (walk_linkview (premove (entry nd p) nd) nd); [exact N|].
    apply linkview_premove_nonlink. unfold linkview. rewrite E. reflexivity.
  - destruct (walk_unlink nd (entry nd p) t W E p []) as [H|H]; unfold realpath.
    + rewrite H. exact N.
    + intro EK. rewrite <- EK in H. congruence.
  - unfold realpath. rewrite (walk_linkview (premove (entry nd p) nd) nd); [exact N|].
    apply linkview_premove_nonlink. unfold linkview. rewrite E. reflexivity.
Qed.

Lemma write_one_keeps G fs fields x o es stamp fs' r K :
  tree_wf (nodes fs) -> is_regular (nodes fs) K = true -> w_mode o <> MA ->
  (isfile_p (nodes fs) (t_path x) && negb (w_overwrite o) = false ->
   existsb (fun f => G fs f x) fields = false -> K <> realpath (nodes fs) (t_path x)) ->
  write_one G fs fields x o es stamp = (fs', r) ->
  content fs' K = content fs K.
Proof.
  intros W RK NA HG H. unfold write_one, write_one_t in H.
  destruct (w_mode o) eqn:M; [|congruence|inversion H; reflexivity].
  assert (Core : forall r0 r1,
    (if isfile_p (nodes fs) (t_path x) && negb (w_overwrite o) then (fs, Some OtherErr)
     else if existsb (fun f => G fs f x) fields then (fs, Some ValueErr)
     else let nd1 := if isfile_p (nodes fs) (t_path x) && w_overwrite o
                     then premove (entry (nodes fs) (t_path x)) (nodes fs) else nodes fs in
          let k := realpath nd1 (t_path x) in
          if negb (creatable nd1 k) then (setn fs nd1, Some OtherErr)
          else (setn fs (create nd1 k stamp), if es then r0 else r1)) = (fs', r) ->
    content fs' K = content fs K).
  { intros r0 r1 H0.
    destruct (isfile_p (nodes fs) (t_path x) && negb (w_overwrite o)); [inversion H0; reflexivity|].
    destruct (existsb (fun f => G fs f x) fields) eqn:EG; [inversion H0; reflexivity|].
    specialize (HG eq_refl eq_refl). cbv zeta in H0.
    set (nd1 := if isfile_p (nodes fs) (t_path x) && w_overwrite o
                then premove (entry (nodes fs) (t_path x)) (nodes fs) else nodes fs) in *.
    assert (K1 : passoc K nd1 = passoc K (nodes fs)).
    { subst nd1. destruct (isfile_p (nodes fs) (t_path x) && w_overwrite o); [|reflexivity].
      apply remove_keeps; assumption. }
    assert (K2 : K <> realpath nd1 (t_path x)).
    { subst nd1. destruct (isfile_p (nodes fs) (t_path x) && w_overwrite o); [|exact HG].
      apply realpath_after_remove; assumption. }
    destruct (negb (creatable nd1 (realpath nd1 (t_path x)))); inversion H0; subst fs'; unfold content; cbn [nodes setn].
    - exact K1.
    - rewrite passoc_create_neq by exact K2. exact K1. }
  destruct (w_fault o); try (inversion H; reflexivity); eapply Core; exact H.
Qed.

Lemma write_one_wf G fs fields x o es stamp fs' r :
  tree_wf (nodes fs) -> write_one G fs fields x o es stamp = (fs', r) -> tree_wf (nodes fs').
Proof.
  intros W H. unfold write_one, write_one_t in H.
  assert (Core : forall r0,
    (if isfile_p (nodes fs) (t_path x) && negb (w_overwrite o) then (fs, Some OtherErr)
     else if existsb (fun f => G fs f x) fields then (fs, Some ValueErr)
     else let nd1 := if isfile_p (nodes fs) (t_path x) && w_overwrite o
                     then premove (entry (nodes fs) (t_path x)) (nodes fs) else nodes fs in
          let k := realpath nd1 (t_path x) in
          if negb (creatable nd1 k) then (setn fs nd1, Some OtherErr)
          else (setn fs (create nd1 k stamp), r0)) = (fs', r) -> tree_wf (nodes fs')).
  { intros r0 H0.
    destruct (isfile_p (nodes fs) (t_path x) && negb (w_overwrite o)); [inversion H0; subst; exact W|].
    destruct (existsb (fun f => G fs f x) fields); [inversion H0; subst; exact W|]. cbv zeta in H0.
    set (nd1 := if isfile_p (nodes fs) (t_path x) && w_overwrite o
                then premove (entry (nodes fs) (t_path x)) (nodes fs) else nodes fs) in *.
    assert (W1 : tree_wf nd1).
    { subst nd1. destruct (isfile_p (nodes fs) (t_path x) && w_overwrite o); [apply tree_wf_premove|]; exact W. }
    destruct (creatable nd1 (realpath nd1 (t_path x))) eqn:C; simpl in H0; inversion H0; subst fs'; simpl.
    - apply tree_wf_create; assumption.
    - exact W1. }
  assert (CoreA : forall r0,
    (if negb (isfile_p (nodes fs) (t_path x)) then (fs, Some OtherErr)
     else if es then (fs, Some ValueErr)
     else (setn fs (append (nodes fs) (t_path x)), r0)) = (fs', r) -> tree_wf (nodes fs')).
  { intros r0 H0. destruct (negb (isfile_p (nodes fs) (t_path x))); [inversion H0; subst; exact W|].
    destruct es; inversion H0; subst; [exact W|]. simpl. apply tree_wf_append. exact W. }
  destruct (w_mode o); [| |inversion H; subst; exact W];
    destruct (w_fault o); try (inversion H; subst; exact W; fail);
    try (eapply Core; exact H); try (eapply CoreA; exact H).
  destruct (negb (isfile_p (nodes fs) (t_path x))); inversion H; subst; exact W.
Qed.

Lemma creatable_linkview nd k : creatable nd k = true -> linkview nd k = None.
Proof.
  unfold creatable, linkview. intro C. apply andb_true_iff in C as [_ C].
  destruct (passoc k nd) as [[s a|t]|]; [reflexivity|discriminate C|reflexivity].
Qed.

(* a name that resolved to a regular file which the write was not allowed to
   replace resolves to it afterwards *)
Lemma write_one_stable G fs fields x o es stamp fs' r K p :
  tree_wf (nodes fs) -> is_regular (nodes fs) K = true ->
  (w_mode o <> MA -> isfile_p (nodes fs) (t_path x) && negb (w_overwrite o) = false ->
   existsb (fun f => G fs f x) fields = false -> K <> realpath (nodes fs) (t_path x)) ->
  realpath (nodes fs) p = K ->
  write_one G fs fields x o es stamp = (fs', r) ->
  realpath (nodes fs') p = K.
Proof.
  intros W RK HG HP H. unfold write_one, write_one_t in H.
  assert (Core : forall r0, w_mode o <> MA ->
    (if isfile_p (nodes fs) (t_path x) && negb (w_overwrite o) then (fs, Some OtherErr)
     else if existsb (fun f => G fs f x) fields then (fs, Some ValueErr)
     else let nd1 := if isfile_p (nodes fs) (t_path x) && w_overwrite o
                     then premove (entry (nodes fs) (t_path x)) (nodes fs) else nodes fs in
          let k := realpath nd1 (t_path x) in
          if negb (creatable nd1 k) then (setn fs nd1, Some OtherErr)
          else (setn fs (create nd1 k stamp), r0)) = (fs', r) -> realpath (nodes fs') p = K).
  { intros r0 NA H0. specialize (HG NA).
    destruct (isfile_p (nodes fs) (t_path x) && negb (w_overwrite o)); [inversion H0; subst fs'; exact HP|].
    destruct (existsb (fun f => G fs f x) fields); [inversion H0; subst fs'; exact HP|].
    specialize (HG eq_refl eq_refl). cbv zeta in H0.
    set (nd1 := if isfile_p (nodes fs) (t_path x) && w_overwrite o
                then premove (entry (nodes fs) (t_path x)) (nodes fs) else nodes fs) in *.
    assert (S1 : realpath nd1 p = K).
    { subst nd1. destruct (isfile_p (nodes fs) (t_path x) && w_overwrite o) eqn:EX; [|exact HP].
      apply andb_true_iff in EX as [EX _]. unfold isfile_p in EX.
      destruct (passoc (entry (nodes fs) (t_path x)) (nodes fs)) as [[s a|t]|] eqn:E.
      - unfold realpath. rewrite (walk_linkview _ (nodes fs)); [exact HP|].
        apply linkview_premove_nonlink. unfold linkview. rewrite E. reflexivity.
      - assert (NE : t_path x <> []).
        { intro E0. rewrite E0 in E. simpl in E. rewrite E0 in EX. unfold realpath in EX. simpl in EX.
          unfold is_regular in EX. rewrite E in EX. discriminate. }
        pose proof (realpath_entry (nodes fs) (t_path x) NE) as R. rewrite E in R.
        unfold realpath. eapply walk_unlink_stable; eauto.
        + rewrite <- R. exact EX.
        + rewrite <- R. exact HG.
      - unfold realpath. rewrite (walk_linkview _ (nodes fs)); [exact HP|].
        apply linkview_premove_nonlink. unfold linkview. rewrite E. reflexivity. }
    destruct (creatable nd1 (realpath nd1 (t_path x))) eqn:C; simpl in H0; inversion H0; subst fs'; simpl.
    - unfold realpath. rewrite (walk_linkview _ nd1); [exact S1|].
      apply linkview_create. apply creatable_linkview. exact C.
    - exact S1. }
  assert (CoreA : forall r0,
    (if negb (isfile_p (nodes fs) (t_path x)) then (fs, Some OtherErr)
     else if es then (fs, Some ValueErr)
     else (setn fs (append (nodes fs) (t_path x)), r0)) = (fs', r) -> realpath (nodes fs') p = K).
  { intros r0 H0. destruct (negb (isfile_p (nodes fs) (t_path x))); [inversion H0; subst fs'; exact HP|].
    destruct es; inversion H0; subst fs'; [exact HP|]. simpl. unfold realpath.
    rewrite (walk_linkview _ (nodes fs)); [exact HP|]. apply linkview_append. }
  destruct (w_mode o) eqn:M; [| |inversion H; subst fs'; exact HP];
    destruct (w_fault o); try (inversion H; subst fs'; exact HP; fail);
    try (eapply Core; [congruence|exact H]); try (eapply CoreA; exact H).
  destruct (negb (isfile_p (nodes fs) (t_path x))); inversion H; subst fs'; exact HP.
Qed.

Lemma write_one_spell G fs fields x o es stamp fs' r :
  write_one G fs fields x o es stamp = (fs', r) -> spell fs' = spell fs.
Proof.
  intro H. unfold write_one, write_one_t in H.
  repeat match type of H with
         | context [match ?c with _ => _ end] => destruct c
         | context [if ?c then _ else _] => destruct c
         end; inversion H; reflexivity.
Qed.

Definition stamp_of (o : option node) : option Z :=
  match o with Some (NFile s _) => Some s | _ => None end.

(* append keeps what is there *)
Lemma append_keeps nd p K :
  stamp_of (passoc K (append nd p)) = stamp_of (passoc K nd)
  /\ (is_regular nd K = true -> is_regular (append nd p) K = true).
Proof.
  unfold append. destruct (passoc (realpath nd p) nd) as [[s a|t]|] eqn:E; try (split; [reflexivity|auto]).
  simpl. destruct (path_eqb K (realpath nd p)) eqn:E2.
  - apply path_eqb_eq in E2. subst. rewrite E. split; [reflexivity|]. unfold is_regular. simpl.
    rewrite path_eqb_refl. auto.
  - assert (N : K <> realpath nd p) by (intro; subst; rewrite path_eqb_refl in E2; discriminate).
    unfold is_regular. simpl. rewrite E2. rewrite passoc_premove_neq by exact N. auto.
Qed.

Lemma write_one_append G fs fields x o es stamp fs' r K :
  w_mode o = MA -> write_one G fs fields x o es stamp = (fs', r) ->
  stamp_of (content fs' K) = stamp_of (content fs K)
  /\ (is_regular (nodes fs) K = true -> is_regular (nodes fs') K = true).
Proof.
  intros M H. unfold write_one, write_one_t in H. rewrite M in H.
  destruct (w_fault o); try (inversion H; subst; split; [reflexivity|auto]; fail);
    destruct (negb (isfile_p (nodes fs) (t_path x))); try (inversion H; subst; split; [reflexivity|auto]; fail);
    destruct es; inversion H; subst; try (split; [reflexivity|auto]; fail);
    unfold content; simpl; apply append_keeps.
Qed.

(* ---- the guard -------------------------------------------------------------------- *)
Lemma existsb_path_In x l : existsb (path_eqb x) l = true <-> In x l.
Proof.
  rewrite existsb_exists. split.
  - intros (y & Hy & E). apply path_eqb_eq in E. subst. exact Hy.
  - intro H. exists x. split; [exact H|apply path_eqb_refl].
Qed.

Lemma guard_excludes fs f x n :
  guard fs f x = false -> In n (consulted f) -> real fs n <> realpath (nodes fs) (t_path x).
Proof.
  unfold guard. intro H. apply orb_false_iff in H as [_ H]. intros Hn E.
  assert (existsb (path_eqb (realpath (nodes fs) (t_path x))) (map (real fs) (consulted f)) = true); [|congruence].
  apply existsb_path_In. rewrite <- E. apply in_map. exact Hn.
Qed.

Lemma existsb_false_In {A} (P : A -> bool) l x : existsb P l = false -> In x l -> P x = false.
Proof.
  intros H I. destruct (P x) eqn:E; [|reflexivity].
  assert (existsb P l = true) by (apply existsb_exists; eauto). congruence.
Qed.

Lemma needs_consulted f n : needs f n -> In n (consulted f).
Proof. intro H. unfold consulted. apply in_or_app. right. apply files_complete. exact H. Qed.

(* The property theorem.  K = the regular file (canonical path = inode) that a
   name consulted by the guard resolves to. *)
Lemma guard_sound_consulted fs q o stamp fs' r f n :
  tree_wf (nodes fs) -> In f (q_fields q) -> In n (consulted f) ->
  is_regular (nodes fs) (real fs n) = true ->
  write_model guard fs q o stamp = (fs', r) ->
  match w_mode o with
  | MA => stamp_of (content fs' (real fs n)) = stamp_of (content fs (real fs n))
  | _ => content fs' (real fs n) = content fs (real fs n)
  end.
Proof.
  intros W Hf Hn RK H. set (K := real fs n) in *. unfold write_model, write_gen in H.
  destruct (write_one guard fs (q_fields q) (q_x q) o (ext_same_at guard fs q o stamp) stamp)
    as [fs1 r1] eqn:E1.
  assert (HG : isfile_p (nodes fs) (t_path (q_x q)) && negb (w_overwrite o) = false ->
               existsb (fun f0 => guard fs f0 (q_x q)) (q_fields q) = false ->
               K <> realpath (nodes fs) (t_path (q_x q))).
  { intros _ EG. apply (guard_excludes fs f); [|exact Hn]. eapply existsb_false_In in EG; eauto. }
  pose proof (write_one_wf _ _ _ _ _ _ _ _ _ W E1) as W1.
  pose proof (write_one_spell _ _ _ _ _ _ _ _ _ E1) as SP.
  assert (ST : real fs1 n = K).
  { unfold real, path_of. rewrite SP.
    eapply (write_one_stable guard fs (q_fields q) (q_x q) o _ stamp fs1 r1 K);
      [exact W|exact RK|intros _; exact HG|reflexivity|exact E1]. }
  (* the second pass, whatever the first did, given what it kept *)
  assert (Second : forall (P : option node -> option node -> Prop),
    (forall a, P a a) ->
    is_regular (nodes fs1) K = true ->
    (forall fs2, content fs2 K = content fs1 K -> P (content fs2 K) (content fs1 K)) ->
    P (content fs' K) (content fs1 K)).
  { intros P Prefl RK1 Pk.
    destruct r1 as [e1|]; [inversion H; subst; apply Prefl|].
    destruct (q_ext q) as [e|]; [|inversion H; subst; apply Prefl].
    destruct (q_efields q) as [|ef efs] eqn:EF; [inversion H; subst; apply Prefl|].
    cbn [andb] in H.
    destruct (existsb (fun f0 => guard fs1 f0 e) (q_fields q)) eqn:EC; [inversion H; subst; apply Prefl|].
    apply Pk. eapply write_one_keeps; eauto; [cbn; discriminate|].
    intros _ _. rewrite <- ST. apply (guard_excludes fs1 f); [|exact Hn].
    eapply existsb_false_In in EC; eauto. }
  destruct (w_mode o) eqn:M.
  - assert (K1 : content fs1 K = content fs K).
    { eapply write_one_keeps; eauto. congruence. }
    rewrite <- K1. apply (Second (fun a b => a = b)); auto.
    unfold is_regular, content in *. rewrite K1. exact RK.
  - destruct (write_one_append _ _ _ _ _ _ _ _ _ K M E1) as [S1 R1].
    rewrite <- S1. apply (Second (fun a b => stamp_of a = stamp_of b)); auto.
    intros fs2 E2. rewrite E2. reflexivity.
  - assert (K1 : content fs1 K = content fs K).
    { eapply write_one_keeps; eauto. congruence. }
    rewrite <- K1. apply (Second (fun a b => a = b)); auto.
    unfold is_regular, content in *. rewrite K1. exact RK.
Qed.

Lemma guard_sound fs q o stamp fs' r f n :
  tree_wf (nodes fs) -> In f (q_fields q) -> needs f n ->
  is_regular (nodes fs) (real fs n) = true ->
  write_model guard fs q o stamp = (fs', r) ->
  match w_mode o with
  | MA => stamp_of (content fs' (real fs n)) = stamp_of (content fs (real fs n))
  | _ => content fs' (real fs n) = content fs (real fs n)
  end.
Proof. intros W Hf Hn. apply (guard_sound_consulted fs q o stamp fs' r f n W Hf). apply needs_consulted. exact Hn. Qed.

(* ---- overwrite disabled: every existing file is left as it was, whatever its role --- *)
Lemma write_one_no_overwrite G fs fields x o es stamp fs' r K :
  tree_wf (nodes fs) -> w_mode o = MW -> w_overwrite o = false -> is_regular (nodes fs) K = true ->
  write_one G fs fields x o es stamp = (fs', r) ->
  content fs' K = content fs K.
Proof.
  intros W M O RK H. eapply write_one_keeps; eauto; [congruence|].
  intros E _ EK. rewrite O in E. simpl in E. rewrite andb_true_r in E.
  unfold isfile_p in E. rewrite <- EK in E. congruence.
Qed.

Lemma no_overwrite_all G fs q o stamp fs' r K :
  tree_wf (nodes fs) -> w_mode o = MW -> w_overwrite o = false -> is_regular (nodes fs) K = true ->
  write_model G fs q o stamp = (fs', r) ->
  content fs' K = content fs K.
Proof.
  intros W M O RK H. unfold write_model, write_gen in H.
  destruct (write_one G fs (q_fields q) (q_x q) o (ext_same_at G fs q o stamp) stamp)
    as [fs1 r1] eqn:E1.
  pose proof (write_one_no_overwrite _ _ _ _ _ _ _ _ _ K W M O RK E1) as K1.
  pose proof (write_one_wf _ _ _ _ _ _ _ _ _ W E1) as W1.
  destruct r1 as [e1|]; [inversion H; subst; exact K1|].
  destruct (q_ext q) as [e|]; [|inversion H; subst; exact K1].
  destruct (q_efields q) as [|ef efs]; [inversion H; subst; exact K1|].
  destruct (true && existsb (fun f0 => G fs1 f0 e) (q_fields q)); [inversion H; subst; exact K1|].
  rewrite <- K1. refine (write_one_no_overwrite _ _ _ _ _ _ _ _ _ K W1 _ _ _ H).
  - reflexivity.
  - cbn. unfold eff_overwrite. rewrite M. exact O.
  - unfold is_regular, content in *. rewrite K1. exact RK.
Qed.

(* an existing target with overwrite disabled: the call raises, nothing changes *)
Lemma no_overwrite C FW G fs q o stamp :
  w_mode o = MW -> w_overwrite o = false -> isfile_p (nodes fs) (t_path (q_x q)) = true ->
  exists e, write_gen C FW G fs q o stamp = (fs, Some e).
Proof.
  intros M O X.
  assert (exists e, write_one G fs (q_fields q) (q_x q) o (ext_same_at G fs q o stamp) stamp = (fs, Some e)) as [e E].
  { unfold write_one, write_one_t. rewrite M, O, X. simpl. destruct (w_fault o); eauto. }
  exists e. unfold write_gen. rewrite E. reflexivity.
Qed.

(* refusal by the guard happens before any file is touched *)
Lemma refused_untouched C FW G fs q o stamp :
  w_mode o = MW -> (forall e, w_fault o <> FEarly1 e) -> (forall e, w_fault o <> FEarly2 e) ->
  isfile_p (nodes fs) (t_path (q_x q)) && negb (w_overwrite o) = false ->
  existsb (fun f => G fs f (q_x q)) (q_fields q) = true ->
  write_gen C FW G fs q o stamp = (fs, Some ValueErr).
Proof.
  intros M N1 N2 Ho Hg.
  assert (E : write_one G fs (q_fields q) (q_x q) o (ext_same_at G fs q o stamp) stamp = (fs, Some ValueErr)).
  { unfold write_one, write_one_t. rewrite M.
    destruct (w_fault o) eqn:Ef; try (exfalso; eapply N1; eauto; fail);
      try (exfalso; eapply N2; eauto; fail); rewrite Ho, Hg; reflexivity. }
  unfold write_gen. rewrite E. reflexivity.
Qed.

(* fix2-2: the external file is refused, before it is touched, when one of
   the constructs themselves still needs it *)
Lemma external_refused G fs q o stamp fs1 e ef efs :
  write_one G fs (q_fields q) (q_x q) o (ext_same_at G fs q o stamp) stamp = (fs1, None) ->
  q_ext q = Some e -> q_efields q = ef :: efs ->
  existsb (fun f => G fs1 f e) (q_fields q) = true ->
  write_model G fs q o stamp = (fs1, Some ValueErr).
Proof.
  intros E1 Ee Ef Hg. unfold write_model, write_gen. rewrite E1, Ee, Ef, Hg. reflexivity.
Qed.

(* errors raised by the option checks leave every file alone *)
Lemma option_error_untouched C FW G fs q o stamp :
  w_mode o = MBad \/ (exists e, w_fault o = FEarly1 e) \/ (w_mode o = MW /\ exists e, w_fault o = FEarly2 e) ->
  exists e, write_gen C FW G fs q o stamp = (fs, Some e).
Proof.
  intro H.
  assert (exists e, write_one G fs (q_fields q) (q_x q) o (ext_same_at G fs q o stamp) stamp = (fs, Some e)) as [e E].
  { destruct H as [M|[[e Ef]|[M [e Ef]]]]; unfold write_one, write_one_t.
    - rewrite M. eauto.
    - rewrite Ef. destruct (w_mode o); eauto.
    - rewrite M, Ef. eauto. }
  exists e. unfold write_gen. rewrite E. reflexivity.
Qed.

(* ---- examples ----------------------------------------------------------------------- *)
(* components: 1 = "d", 2 = "data", 3 = "alias" (-> /d/data), 4 = "x.nc",
   5 = "lx.nc" (-> /d/data/x.nc), 6 = "s" (-> /d), 7 = "new.nc", 8 = "e.nc".
   names: 10 = /d/data/x.nc, 11 = /d/alias/x.nc, 12 = /d/lx.nc, 13 = /s/alias/x.nc,
   14 = /d/data/new.nc, 15 = /d/alias/e.nc, 16 = /d/data/e.nc *)
Definition ex_store : store :=
  [([1; 2; 4], NFile 100 O); ([1; 2; 8], NFile 108 O);
   ([1; 3], NLink [1; 2]); ([1; 5], NLink [1; 2; 4]); ([6], NLink [1])].
Definition ex_fs : fsys :=
  mkFS [(10, [1; 2; 4]); (11, [1; 3; 4]); (12, [1; 5]); (13, [6; 3; 4]); (14, [1; 2; 7]);
        (15, [1; 3; 8]); (16, [1; 2; 8])] ex_store.
Definition tg (fs : fsys) (n : fname) : target := mkT n (path_of fs n).

(* lazy bounds and a lazy count variable of /d/data/x.nc under in-memory data *)
Definition ex_field_n (n : fname) : field :=
  mkF [n] (Some (Comp Mem [mkAnc [n] (File [n])]))
      [("dimensioncoordinate0"%string, mkC [n] (Some (Plain Mem)) (Some (mkP [n] (Some (Plain (File [n]))))) None)].
Definition ex_q (x : fname) : wreq := mkQ [ex_field_n 10] [] (tg ex_fs x) None.

(* a fresh field holding data transplanted from /d/data/x.nc and a new
   in-memory cell measure flagged external; the external field derived from it *)
Definition ex_cm : string * cons := ("cellmeasure0"%string, mkC [] (Some (Plain Mem)) None None).
Definition ex_g : field := mkF [] (Some (Plain (File [10]))) [ex_cm].
Definition ex_h : field := mkF [] (Some (Plain Mem)) [ex_cm].
Definition ex_ef : field := mkF [] (Some (Plain Mem)) [ex_cm].

Lemma tree_wf_dec nd :
  forallb (fun kv => forallb (fun kv' => negb (prefixb (fst kv) (fst kv')) || path_eqb (fst kv) (fst kv')) nd) nd = true ->
  (forall k v, passoc k nd = Some v -> In (k, v) nd \/ exists v', In (k, v') nd) -> tree_wf nd.
Proof.
  intros H _ k k' v v' Hk Hk' P. rewrite forallb_forall in H.
  apply passoc_In in Hk as (a & Ia & ->). apply passoc_In in Hk' as (b & Ib & ->).
  specialize (H _ Ia). rewrite forallb_forall in H. specialize (H _ Ib). simpl in H.
  rewrite P in H. simpl in H. apply path_eqb_eq. exact H.
Qed.

Lemma ex_store_wf : tree_wf ex_store.
Proof. apply tree_wf_dec; [vm_compute; reflexivity|]. intros k v H. right. apply passoc_In in H as (a & I & ->). eauto. Qed.

Lemma guard_sound_example :
  tree_wf (nodes ex_fs) /\ needs (ex_field_n 10) 10 /\ is_regular (nodes ex_fs) (real ex_fs 10) = true /\
  (* refused by its name, through a link to the parent directory, through a link
     to the file, through a linked scratch directory and the directory link *)
  Forall (fun x => write_model guard ex_fs (ex_q x) (mkW MW true FNone) 1000 = (ex_fs, Some ValueErr))
         [10; 11; 12; 13] /\
  same_file (nodes ex_fs) (path_of ex_fs 13) (path_of ex_fs 10) /\
  (* accepted elsewhere *)
  snd (write_model guard ex_fs (ex_q 14) (mkW MW true FNone) 1000) = None /\
  (* the external file: refused when a construct itself needs it, the file untouched *)
  (let '(fs', r) := write_model guard ex_fs (mkQ [ex_g] [ex_ef] (tg ex_fs 14) (Some (tg ex_fs 11)))
                                (mkW MW true FNone) 1000 in
   r = Some ValueErr /\ content fs' [1; 2; 4] = content ex_fs [1; 2; 4]) /\
  (* overwrite disabled: an existing external file stays, the call raises *)
  (let '(fs', r) := write_model guard ex_fs (mkQ [ex_h] [ex_ef] (tg ex_fs 14) (Some (tg ex_fs 15)))
                                (mkW MW false FNone) 1000 in
   r = Some OtherErr /\ content fs' [1; 2; 8] = content ex_fs [1; 2; 8]).
Proof.
  splits; try (vm_compute; reflexivity).
  - exact ex_store_wf.
  - apply files_complete. vm_compute. left. reflexivity.
  - repeat constructor.
  - vm_compute. split; reflexivity.
  - vm_compute. split; reflexivity.
Qed.

(* ---- names as given -------------------------------------------------------------------- *)
Lemma target_of_ext ev fs r1 r2 : expand ev r1 = expand ev r2 -> target_of ev fs r1 = target_of ev fs r2.
Proof. intro H. unfold target_of. rewrite H. reflexivity. Qed.

(* the whole call - what is refused, what is removed, created, appended to, the error raised -
   depends on the names only through what they expand to *)
Lemma spelling_invariant ev G fs q1 q2 o stamp :
  gq_fields q1 = gq_fields q2 -> gq_efields q1 = gq_efields q2 ->
  expand ev (gq_x q1) = expand ev (gq_x q2) ->
  option_map (expand ev) (gq_ext q1) = option_map (expand ev) (gq_ext q2) ->
  write_given ev G fs q1 o stamp = write_given ev G fs q2 o stamp.
Proof.
  intros F E X Ex. unfold write_given, expand_req. rewrite F, E, (target_of_ext ev fs _ _ X).
  replace (option_map (target_of ev fs) (gq_ext q1)) with (option_map (target_of ev fs) (gq_ext q2)); [reflexivity|].
  destruct (gq_ext q1), (gq_ext q2); simpl in *; try discriminate; try reflexivity.
  inversion Ex as [Ex']. rewrite (target_of_ext ev fs _ _ Ex'). reflexivity.
Qed.

Lemma guard_sound_given ev fs q o stamp fs' r f n :
  tree_wf (nodes fs) -> In f (gq_fields q) -> needs f n ->
  is_regular (nodes fs) (real fs n) = true ->
  write_given ev guard fs q o stamp = (fs', r) ->
  match w_mode o with
  | MA => stamp_of (content fs' (real fs n)) = stamp_of (content fs (real fs n))
  | _ => content fs' (real fs n) = content fs (real fs n)
  end.
Proof. intros W Hf. apply (guard_sound fs (expand_req ev fs q) o stamp fs' r f n W Hf). Qed.

Lemma no_overwrite_all_given ev G fs q o stamp fs' r K :
  tree_wf (nodes fs) -> w_mode o = MW -> w_overwrite o = false -> is_regular (nodes fs) K = true ->
  write_given ev G fs q o stamp = (fs', r) ->
  content fs' K = content fs K.
Proof. apply no_overwrite_all. Qed.

Lemma no_overwrite_given ev G fs q o stamp :
  w_mode o = MW -> w_overwrite o = false -> isfile_p (nodes fs) (expand ev (gq_x q)) = true ->
  exists e, write_given ev G fs q o stamp = (fs, Some e).
Proof. intros M O X. apply (no_overwrite true true G fs (expand_req ev fs q) o stamp M O X). Qed.

(* example: $V/e.nc, ${V}/e.nc (the same token), ~/e.nc and the plain name, with V = HOME = /d/data *)
Definition ex_env : env := mkE [(1, [1; 2])] [1; 2].
Definition ex_gq (x : rname) : greq := mkGQ [ex_h] [] x None.

Lemma given_example :
  Forall (fun x => write_given ex_env guard ex_fs (ex_gq x) (mkW MW false FNone) 1000 = (ex_fs, Some OtherErr))
         [[RLit 1; RLit 2; RLit 8]; [RVar 1; RLit 8]; [RHome; RLit 8]; [RLit 1; RLit 3; RLit 8]] /\
  (* the test made on the unexpanded name: nothing refused, the existing file replaced *)
  (let '(fs', r) := write_given_test_unexpanded (fun _ => [99; 8]) ex_env guard ex_fs (ex_gq [RVar 1; RLit 8])
                      (mkW MW false FNone) 1000 in
   r = None /\ content fs' [1; 2; 8] <> content ex_fs [1; 2; 8]).
Proof.
  split; [repeat constructor|]. vm_compute. split; [reflexivity|discriminate].
Qed.

(* the "external == target" refusal is decided after the target has been opened: a target
   that is a symbolic link to the external file has been replaced by a file of its own by
   then and the call goes ahead; named directly (or through a directory link) it is refused *)
Lemma ext_same_example :
  snd (write_model guard ex_fs (mkQ [ex_h] [ex_ef] (tg ex_fs 12) (Some (tg ex_fs 10))) (mkW MW true FNone) 1000) = None /\
  snd (write_model guard ex_fs (mkQ [ex_h] [ex_ef] (tg ex_fs 11) (Some (tg ex_fs 10))) (mkW MW true FNone) 1000) = Some ValueErr /\
  snd (write_model guard ex_fs (mkQ [ex_h] [ex_ef] (tg ex_fs 12) (Some (tg ex_fs 10))) (mkW MA true FNone) 1000) = Some ValueErr.
Proof. vm_compute. auto. Qed.
