(* C10 - executable model of cfdm's file tracking and of the overwrite guard
   of the netCDF writer.  Definitions only; proofs are in Lemmas.v.

   Anchors:
     cfdm/mixin/files.py                  Files._initialise_original_filenames, _original_filenames
     cfdm/mixin/fielddomain.py            FieldDomain._original_filenames   (aggregation over constructs)
     cfdm/mixin/propertiesdatabounds.py   _original_filenames, get_filenames (bounds, interior ring)
     cfdm/mixin/propertiesdata.py         get_filenames
     cfdm/data/data.py                    Data.get_filenames
     cfdm/data/abstract/compressedarray.py get_filenames
     cfdm/data/mixin/filearraymixin.py    get_filenames ('filename' component)
     cfdm/field.py                        get_filenames, get_domain, convert, __init__(source=)
     cfdm/read_write/netcdf/netcdfwrite.py  write, _file_io_iteration, file_open

   A file name is the interned, normalised absolute path (cfdm.abspath); the
   harness interns the strings.  [*_old] definitions are the code as it stood
   before the repair C10-fix-1 (kept for Refuted.v).  The file system and the
   writer are in Fs.v; the writer's treatment of its inputs is in Ident.v. *)
From CfdmV Require Import Common.Base.
Open Scope Z_scope.

Definition fname := Z.

(* ---- arrays and constructs ------------------------------------------------ *)
(* An array that is in memory, or a file array (NetCDF4Array / H5netcdfArray)
   whose 'filename' component lists the files it can be read from. *)
Inductive leaf := Mem | File (fs : list fname).

(* A compression ancillary variable (Count, Index, List, TiePointIndex,
   InterpolationParameter): its own 'original_filenames' component and the
   array of its data. *)
Record anc := mkAnc { a_orig : list fname; a_leaf : leaf }.

(* The array under a Data object: plain, or a compressed array holding the
   compressed data and its ancillary variables. *)
Inductive arr := Plain (l : leaf) | Comp (inner : leaf) (ancs : list anc).

(* Bounds / InteriorRing: properties + data, with an own component. *)
Record pvar := mkP { p_orig : list fname; p_data : option arr }.

(* A metadata construct that can hold data. *)
Record cons := mkC {
  c_orig : list fname;
  c_data : option arr;
  c_bounds : option pvar;
  c_ring : option pvar }.

(* A field or domain construct (a domain has no data). *)
Record field := mkF {
  f_orig : list fname;
  f_data : option arr;
  f_cons : list (string * cons) }.

(* ---- get_original_filenames ----------------------------------------------- *)
(* Files._original_filenames: the own component.
   PropertiesDataBounds._original_filenames: own + bounds' own + interior ring's own.
   FieldDomain._original_filenames: own + every construct's. *)
Definition pvar_orig (p : option pvar) : list fname :=
  match p with Some p => p_orig p | None => [] end.

Definition cons_orig (c : cons) : list fname :=
  c_orig c ++ pvar_orig (c_bounds c) ++ pvar_orig (c_ring c).

Definition field_orig (f : field) : list fname :=
  f_orig f ++ flat_map (fun kc => cons_orig (snd kc)) (f_cons f).

(* ---- get_filenames -------------------------------------------------------- *)
Definition leaf_files (l : leaf) : list fname :=
  match l with Mem => [] | File fs => fs end.

(* Data.get_filenames before the repair: source.get_filenames() only; for a
   compressed array that is the compressed data's files. *)
Definition arr_files_old (a : arr) : list fname :=
  match a with Plain l => leaf_files l | Comp i _ => leaf_files i end.

(* Data.get_filenames after the repair: plus the compression ancillaries. *)
Definition arr_files (a : arr) : list fname :=
  match a with
  | Plain l => leaf_files l
  | Comp i ancs => leaf_files i ++ flat_map (fun a => leaf_files (a_leaf a)) ancs
  end.

Definition odat_files (F : arr -> list fname) (d : option arr) : list fname :=
  match d with Some a => F a | None => [] end.

Definition pvar_files (F : arr -> list fname) (p : option pvar) : list fname :=
  match p with Some p => odat_files F (p_data p) | None => [] end.

(* PropertiesData.get_filenames (before the repair also used by constructs
   with bounds): the construct's own data only. *)
Definition cons_files_old (c : cons) : list fname := odat_files arr_files_old (c_data c).

(* PropertiesDataBounds.get_filenames after the repair. *)
Definition cons_files (c : cons) : list fname :=
  odat_files arr_files (c_data c) ++ pvar_files arr_files (c_bounds c)
  ++ pvar_files arr_files (c_ring c).

(* Field.get_filenames / Domain.get_filenames: own data + every construct
   that can hold data. *)
Definition field_files_old (f : field) : list fname :=
  odat_files arr_files_old (f_data f) ++ flat_map (fun kc => cons_files_old (snd kc)) (f_cons f).

Definition field_files (f : field) : list fname :=
  odat_files arr_files (f_data f) ++ flat_map (fun kc => cons_files (snd kc)) (f_cons f).

(* ---- derivation operations ------------------------------------------------ *)
(* The derivations act on a list of registers (the constructs the program
   holds).  An operation that returns a new construct appends a register; an
   in-place operation replaces one.  Every operation may additionally bring
   any of the arrays it touches into memory; that is expressed by the
   refinement relation below, not by the operation itself. *)
Inductive dsel := SelField | SelCons (k : string) | SelBounds (k : string) | SelRing (k : string).

Inductive op :=
| OCopy (i : nat)                 (* copy, squeeze, transpose, insert_dimension, subspace,
                                     apply_masking, uncompress: same constructs, same names *)
| OGetDomain (i : nat) (keep : list string)   (* f.get_domain() / f.domain; keep = keys of the constructs
                                     that belong to the domain (field ancillaries do not) *)
| OFieldSource (i : nat)          (* Field(source=x) *)
| OConvert (i : nat) (k : string) (keep : list string)   (* f.convert(k); keep = keys of the constructs retained *)
| ONewField                       (* Field() *)
| OSetData (dst src : nat) (s : dsel)   (* dst.set_data(<data selected from src>) - a data transplant *)
| ODelData (i : nat)
| ODelCons (i : nat) (k : string)
| OSetCons (dst : nat) (nk : string) (src : nat) (k : string)  (* dst.set_construct(src.construct(k)) *)
| ODelBounds (i : nat) (k : string)
| OSetBounds (dst : nat) (k : string) (src : nat) (k' : string)  (* c.set_bounds(other.bounds) *)
| OSetBoundsData (dst : nat) (k : string) (src : nat) (s : dsel) (* c.bounds.set_data(<data>) - a transplant *)
| ONewCons (i : nat) (k : string) (* f.set_construct(<a construct made in memory>), e.g. a new cell measure *)
| OTouch (i : nat).               (* in place: to_memory, persist, assignment, .array, set_property,
                                     nc_set_variable, nc_set_external *)

Fixpoint kassoc {A} (k : string) (l : list (string * A)) : option A :=
  match l with
  | [] => None
  | (k', v) :: r => if String.eqb k k' then Some v else kassoc k r
  end.

Fixpoint kremove {A} (k : string) (l : list (string * A)) : list (string * A) :=
  match l with
  | [] => []
  | (k', v) :: r => if String.eqb k k' then kremove k r else (k', v) :: kremove k r
  end.

Fixpoint kupdate {A} (k : string) (g : A -> A) (l : list (string * A)) : list (string * A) :=
  match l with
  | [] => []
  | (k', v) :: r => if String.eqb k k' then (k', g v) :: kupdate k g r else (k', v) :: kupdate k g r
  end.

Fixpoint set_nth {A} (n : nat) (x : A) (l : list A) : list A :=
  match l, n with
  | [], _ => []
  | _ :: r, O => x :: r
  | y :: r, S n => y :: set_nth n x r
  end.

Definition select (f : field) (s : dsel) : option arr :=
  match s with
  | SelField => f_data f
  | SelCons k => obind (kassoc k (f_cons f)) c_data
  | SelBounds k => obind (kassoc k (f_cons f)) (fun c => obind (c_bounds c) p_data)
  | SelRing k => obind (kassoc k (f_cons f)) (fun c => obind (c_ring c) p_data)
  end.

Definition set_fdata (d : option arr) (f : field) : field := mkF (f_orig f) d (f_cons f).
Definition set_fcons (cs : list (string * cons)) (f : field) : field := mkF (f_orig f) (f_data f) cs.
Definition set_cbounds (b : option pvar) (c : cons) : cons := mkC (c_orig c) (c_data c) b (c_ring c).

(* Field.convert: Field(source=<copy of the construct without its data>)
   takes the construct's own 'original_filenames' component; its data become
   the field's data; bounds are not carried; the retained constructs are
   copies of the parent's. *)
Definition convert (f : field) (k : string) (keep : list string) : option field :=
  match kassoc k (f_cons f) with
  | None => None
  | Some c =>
      Some (mkF (c_orig c) (c_data c)
                (filter (fun kc => existsb (String.eqb (fst kc)) keep) (f_cons f)))
  end.

(* the register an operation writes, and the value it writes there *)
Definition step (e : list field) (o : op) : list field :=
  match o with
  | OCopy i => match nth_error e i with Some f => e ++ [f] | None => e end
  | OGetDomain i keep =>
      (* Domain.fromconstructs: a new domain (no own original file names)
         holding the field's metadata constructs *)
      match nth_error e i with
      | Some f => e ++ [mkF [] None (filter (fun kc => existsb (String.eqb (fst kc)) keep) (f_cons f))]
      | None => e
      end
  | OFieldSource i => match nth_error e i with Some f => e ++ [f] | None => e end
  | OConvert i k keep =>
      match nth_error e i with
      | Some f => match convert f k keep with Some g => e ++ [g] | None => e end
      | None => e
      end
  | ONewField => e ++ [mkF [] None []]
  | OSetData dst src s =>
      match nth_error e dst, nth_error e src with
      | Some f, Some g =>
          match select g s with
          | Some a => set_nth dst (set_fdata (Some a) f) e
          | None => e
          end
      | _, _ => e
      end
  | ODelData i =>
      match nth_error e i with Some f => set_nth i (set_fdata None f) e | None => e end
  | ODelCons i k =>
      match nth_error e i with
      | Some f => set_nth i (set_fcons (kremove k (f_cons f)) f) e
      | None => e
      end
  | OSetCons dst nk src k =>
      match nth_error e dst, nth_error e src with
      | Some f, Some g =>
          match kassoc k (f_cons g) with
          | Some c => set_nth dst (set_fcons (kremove nk (f_cons f) ++ [(nk, c)]) f) e
          | None => e
          end
      | _, _ => e
      end
  | ODelBounds i k =>
      match nth_error e i with
      | Some f => set_nth i (set_fcons (kupdate k (set_cbounds None) (f_cons f)) f) e
      | None => e
      end
  | OSetBounds dst k src k' =>
      match nth_error e dst, nth_error e src with
      | Some f, Some g =>
          match obind (kassoc k' (f_cons g)) c_bounds with
          | Some b => set_nth dst (set_fcons (kupdate k (set_cbounds (Some b)) (f_cons f)) f) e
          | None => e
          end
      | _, _ => e
      end
  | OSetBoundsData dst k src s =>
      match nth_error e dst, nth_error e src with
      | Some f, Some g =>
          match select g s with
          | Some a =>
              set_nth dst (set_fcons (kupdate k (fun c =>
                match c_bounds c with
                | Some b => set_cbounds (Some (mkP (p_orig b) (Some a))) c
                | None => c
                end) (f_cons f)) f) e
          | None => e
          end
      | _, _ => e
      end
  | ONewCons i k =>
      match nth_error e i with
      | Some f => set_nth i (set_fcons (kremove k (f_cons f) ++ [(k, mkC [] (Some (Plain Mem)) None None)]) f) e
      | None => e
      end
  | OTouch _ => e
  end.

(* operations that move data between constructs without the name of its file *)
Definition transplant (o : op) : bool :=
  match o with OSetData _ _ _ | OSetBoundsData _ _ _ _ => true | _ => false end.

(* ---- refinement: any array may have been brought into memory -------------- *)
Definition zlist_eqb := list_eqb Z.eqb.

Definition subsetb (a b : list fname) : bool :=
  forallb (fun x => existsb (Z.eqb x) b) a.
Definition seteqb (a b : list fname) : bool := subsetb a b && subsetb b a.

Definition leaf_refb (o p : leaf) : bool :=
  match o, p with
  | Mem, _ => true
  | File a, File b => zlist_eqb a b
  | File _, Mem => false
  end.

Definition anc_refb (o p : anc) : bool :=
  seteqb (a_orig o) (a_orig p) && leaf_refb (a_leaf o) (a_leaf p).

Definition arr_refb (o p : arr) : bool :=
  match o, p with
  | Plain Mem, _ => true
  | Plain l, Plain l' => leaf_refb l l'
  | Comp i a, Comp i' a' => leaf_refb i i' && list_eqb anc_refb a a'
  | _, _ => false
  end.

Definition odat_refb (o p : option arr) : bool :=
  match o, p with
  | None, None => true
  | Some a, Some b => arr_refb a b
  | _, _ => false
  end.

Definition pvar_refb (o p : option pvar) : bool :=
  match o, p with
  | None, None => true
  | Some a, Some b => seteqb (p_orig a) (p_orig b) && odat_refb (p_data a) (p_data b)
  | _, _ => false
  end.

Definition cons_refb (o p : cons) : bool :=
  seteqb (c_orig o) (c_orig p) && odat_refb (c_data o) (c_data p)
  && pvar_refb (c_bounds o) (c_bounds p) && pvar_refb (c_ring o) (c_ring p).

(* the same keys (in any order), each construct refined *)
Definition cons_list_refb (o p : list (string * cons)) : bool :=
  Nat.eqb (length o) (length p) &&
  forallb (fun kc => match kassoc (fst kc) p with
                     | Some c' => cons_refb (snd kc) c'
                     | None => false
                     end) o.

Definition field_refb (o p : field) : bool :=
  seteqb (f_orig o) (f_orig p) && odat_refb (f_data o) (f_data p)
  && cons_list_refb (f_cons o) (f_cons p).

Definition env_refb (o p : list field) : bool := list_eqb field_refb o p.
