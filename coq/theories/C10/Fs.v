(* C10 - the file system and the netCDF writer's treatment of files.
   Definitions only; proofs are in FsLemmas.v.

   Anchors:
     cfdm/read_write/netcdf/netcdfwrite.py   write, _file_io_iteration (isfile / overwrite test,
                                             external-file tail), file_open, _check_file_not_needed
     os.path.realpath / os.remove / netCDF4.Dataset(name, "w" | "a")

   A small file-system model.  A path is the list of its components from the
   root (interned by the harness; lexically normalised as os.path.abspath
   leaves it: no empty, "." or ".." component).  The store maps CANONICAL paths
   - those that name a directory entry without passing through a symbolic
   link - to what is there: a regular file or a symbolic link; directories
   are implicit (any proper prefix of a key).  The canonical path of a
   regular file plays the part of its inode: two names are the same file
   exactly when they resolve to the same canonical path.  A symbolic link may
   sit at ANY component of a name (a link to a file, to a parent directory, to
   the scratch directory); its target is recorded as a canonical path (the
   harness resolves relative targets and chains), so resolution is one pass
   over the components.  Hard links, chains of links that are themselves
   replaced, and ".." that follows a link to a deeper directory are outside
   this model (the last is left to the property oracle: see fix2-1). *)
From CfdmV Require Import Common.Base C10.Model.
Open Scope Z_scope.

Definition comp := Z.
Definition path := list comp.
Definition path_eqb : path -> path -> bool := list_eqb Z.eqb.

Inductive node := NFile (stamp : Z) (appends : nat) | NLink (target : path).

Definition store := list (path * node).

Fixpoint passoc (k : path) (l : store) : option node :=
  match l with
  | [] => None
  | (k', v) :: r => if path_eqb k k' then Some v else passoc k r
  end.

Fixpoint premove (k : path) (l : store) : store :=
  match l with
  | [] => []
  | (k', v) :: r => if path_eqb k k' then premove k r else (k', v) :: premove k r
  end.

(* Resolution of the components [rest] from the canonical directory [cur]:
   an entry that is a symbolic link is replaced by its (canonical) target. *)
Fixpoint walk (nd : store) (cur rest : path) : path :=
  match rest with
  | [] => cur
  | c :: r =>
      match passoc (cur ++ [c]) nd with
      | Some (NLink t) => walk nd t r
      | _ => walk nd (cur ++ [c]) r
      end
  end.

(* os.path.realpath(p); also the file that open(p) reaches *)
Definition realpath (nd : store) (p : path) : path := walk nd [] p.

(* the directory entry that p names: links in the directory part are
   followed, the last component is not (os.remove, os.lstat) *)
Definition entry (nd : store) (p : path) : path :=
  match p with
  | [] => []
  | _ => realpath nd (removelast p) ++ [last p 0]
  end.

Definition is_regular (nd : store) (k : path) : bool :=
  match passoc k nd with Some (NFile _ _) => true | _ => false end.

(* two names are the same file *)
Definition same_file (nd : store) (a b : path) : Prop := realpath nd a = realpath nd b.

(* os.path.isfile follows links *)
Definition isfile_p (nd : store) (p : path) : bool := is_regular nd (realpath nd p).

Fixpoint prefixb (a b : path) : bool :=
  match a, b with
  | [], _ => true
  | x :: a', y :: b' => Z.eqb x y && prefixb a' b'
  | _ :: _, [] => false
  end.

(* netCDF4.Dataset(p, "w") can create or truncate the file at canonical path
   k: k is not a directory (no key lies below it), no key above it is a file
   or a link, and it is not itself a dangling link *)
Definition creatable (nd : store) (k : path) : bool :=
  forallb (fun kv => path_eqb (fst kv) k || negb (prefixb (fst kv) k || prefixb k (fst kv))) nd
  && match passoc k nd with Some (NLink _) => false | _ => true end.

(* ---- the program's view: interned names ------------------------------------- *)
(* spell: the components of every interned (absolute, normalised) file name *)
Record fsys := mkFS { spell : list (fname * path); nodes : store }.

Fixpoint zassoc {A} (k : Z) (l : list (Z * A)) : option A :=
  match l with
  | [] => None
  | (k', v) :: r => if Z.eqb k k' then Some v else zassoc k r
  end.

Definition path_of (fs : fsys) (n : fname) : path :=
  match zassoc n (spell fs) with Some p => p | None => [] end.

Definition real (fs : fsys) (n : fname) : path := realpath (nodes fs) (path_of fs n).

Definition setn (fs : fsys) (nd : store) : fsys := mkFS (spell fs) nd.

Definition content (fs : fsys) (k : path) : option node := passoc k (nodes fs).

(* a file name as the program wrote it: its interned absolute name and the
   components of that name *)
Record target := mkT { t_name : fname; t_path : path }.

(* ---- the guard -------------------------------------------------------------- *)
(* Before any repair: abspath(filename) in get_original_filenames(f). *)
Definition guard_old (fs : fsys) (f : field) (x : target) : bool :=
  existsb (Z.eqb (t_name x)) (field_orig f).

(* NetCDFWrite._check_file_not_needed: the original file names and the files
   still needed by any data, compared by name and by os.path.realpath. *)
Definition consulted (f : field) : list fname := field_orig f ++ field_files f.

Definition guard (fs : fsys) (f : field) (x : target) : bool :=
  existsb (Z.eqb (t_name x)) (consulted f)
  || existsb (path_eqb (realpath (nodes fs) (t_path x))) (map (real fs) (consulted f)).

(* An intermediate state of the code (seeded change 1): real paths are only
   compared when the target or the consulted name is ITSELF a symbolic link. *)
Definition is_link_p (nd : store) (p : path) : bool :=
  match passoc p nd with Some (NLink _) => true | _ => false end.

Definition guard_final_link_only (fs : fsys) (f : field) (x : target) : bool :=
  existsb (Z.eqb (t_name x)) (consulted f)
  || existsb (fun n =>
       (is_link_p (nodes fs) (t_path x) || is_link_p (nodes fs) (path_of fs n))
       && path_eqb (realpath (nodes fs) (t_path x)) (real fs n)) (consulted f).

(* ---- the writer ------------------------------------------------------------- *)
Inductive wmode := MW | MA | MBad.
(* an option error raised before the append pre-read (mode, hdf5_chunks), one
   raised after it and before the file is opened (format, attribute lists,
   'fields' type), or an error raised while variables are being written *)
Inductive fault := FNone | FEarly1 (e : errk) | FEarly2 (e : errk) | FLate.

Record wopts := mkW { w_mode : wmode; w_overwrite : bool; w_fault : fault }.

Definition late (o : wopts) : option errk :=
  match w_fault o with FLate => Some OtherErr | _ => None end.

Definition create (nd : store) (k : path) (stamp : Z) : store :=
  (k, NFile stamp O) :: premove k nd.

(* netCDF4.Dataset(p, "a") and writing more variables: the existing content stays *)
Definition append (nd : store) (p : path) : store :=
  let k := realpath nd p in
  match passoc k nd with
  | Some (NFile s a) => (k, NFile s (S a)) :: premove k nd
  | _ => nd
  end.

(* One pass of NetCDFWrite.write + _file_io_iteration + file_open over a
   non-empty sequence of constructs.  [xt] = the path that the overwrite=False
   existence test looks at: in the code it is the target itself (write_one).  [ext_same]: an external file was named
   and it is the same file as the target (refused after the target has been
   opened).  Returns the file system afterwards and the error class raised. *)
Definition write_one_t (xt : path) (G : fsys -> field -> target -> bool)
           (fs : fsys) (fields : list field) (x : target) (o : wopts) (ext_same : bool) (stamp : Z)
  : fsys * option errk :=
  let nd := nodes fs in
  match w_mode o with
  | MBad => (fs, Some ValueErr)
  | m =>
    match w_fault o with
    | FEarly1 e => (fs, Some e)
    | _ =>
      match m with
      | MA =>
          (* the existing file is read first (dry run, nothing written) *)
          if negb (isfile_p nd (t_path x)) then (fs, Some OtherErr)
          else match w_fault o with
               | FEarly2 e => (fs, Some e)
               | _ => if ext_same then (fs, Some ValueErr)
                      else (setn fs (append nd (t_path x)), late o)
               end
      | _ =>
          match w_fault o with
          | FEarly2 e => (fs, Some e)
          | _ =>
            let ex := isfile_p nd (t_path x) in
            if isfile_p nd xt && negb (w_overwrite o) then (fs, Some OtherErr)
            else if existsb (fun f => G fs f x) fields then (fs, Some ValueErr)
            else
              (* g["overwrite"] is switched off when the file does not exist *)
              let nd1 := if ex && w_overwrite o then premove (entry nd (t_path x)) nd else nd in
              let k := realpath nd1 (t_path x) in
              if negb (creatable nd1 k) then (setn fs nd1, Some OtherErr)
              else (setn fs (create nd1 k stamp), if ext_same then Some ValueErr else late o)
          end
      end
    end
  end.

Definition write_one (G : fsys -> field -> target -> bool)
           (fs : fsys) (fields : list field) (x : target) (o : wopts) (ext_same : bool) (stamp : Z)
  : fsys * option errk := write_one_t (t_path x) G fs fields x o ext_same stamp.

(* A write request: the constructs, the external fields that the writer
   derives from them (Field.convert of every cell measure flagged external
   that has data and a netCDF variable name), the target and the external
   file name. *)
Record wreq := mkQ { q_fields : list field; q_efields : list field; q_x : target; q_ext : option target }.

Definition ext_same (nd : store) (x : target) (ext : option target) : bool :=
  match ext with
  | Some e => path_eqb (realpath nd (t_path e)) (realpath nd (t_path x))
  | None => false
  end.

(* `os.path.realpath(external) == os.path.realpath(filename)` is evaluated AFTER file_open: in
   mode w the target has by then been removed and created again, so a target that was a
   symbolic link to the external file is a regular file of its own and no longer "the same
   path" (the file system that the pass leaves does not depend on the outcome of this test);
   in append mode the test is made in the dry run, before anything is changed *)
Definition ext_same_at (G : fsys -> field -> target -> bool) (fs : fsys) (q : wreq) (o : wopts) (stamp : Z) : bool :=
  match w_mode o with
  | MA => ext_same (nodes fs) (q_x q) (q_ext q)
  | _ => ext_same (nodes (fst (write_one G fs (q_fields q) (q_x q) o false stamp))) (q_x q) (q_ext q)
  end.

(* append mode switches overwrite off for everything that follows *)
Definition eff_overwrite (o : wopts) : bool :=
  match w_mode o with MA => false | _ => w_overwrite o end.

(* The whole call.  [C] = the external file is also checked against the
   constructs themselves (repair fix2-2); [FW] = the overwrite flag is
   forwarded to the write of the external file. *)
Definition write_gen (C FW : bool) (G : fsys -> field -> target -> bool)
           (fs : fsys) (q : wreq) (o : wopts) (stamp : Z) : fsys * option errk :=
  let (fs1, r1) := write_one G fs (q_fields q) (q_x q) o (ext_same_at G fs q o stamp) stamp in
  match r1, q_ext q, q_efields q with
  | None, Some e, _ :: _ =>
      if C && existsb (fun f => G fs1 f e) (q_fields q) then (fs1, Some ValueErr)
      else write_one G fs1 (q_efields q) e
             (mkW MW (if FW then eff_overwrite o else true) FNone) false (stamp + 1)
  | _, _, _ => (fs1, r1)
  end.

Definition write_model := write_gen true true.

(* ---- names as given: expansion, then identification ----------------------------- *)
(* NetCDFWrite.write: filename = os.path.expanduser(os.path.expandvars(filename)) (the
   external file name likewise in _file_io_iteration); every later step - the existence
   test, the guard, os.remove, netCDF4.Dataset - sees the expanded name.  A name as given
   is a sequence of literal components in which "$VAR" / "${VAR}" and a leading "~" may
   stand; the environment gives the (absolute, normalised) value of each variable and
   of HOME.  The interned absolute name is found from the expanded path. *)
Inductive rcomp := RLit (c : comp) | RVar (v : Z) | RHome.
Definition rname := list rcomp.
Record env := mkE { e_vars : list (Z * path); e_home : path }.

Definition expand (ev : env) (r : rname) : path :=
  flat_map (fun c => match c with
                     | RLit c => [c]
                     | RVar v => match zassoc v (e_vars ev) with Some p => p | None => [] end
                     | RHome => e_home ev
                     end) r.

Definition name_of (fs : fsys) (p : path) : fname :=
  match find (fun np => path_eqb (snd np) p) (spell fs) with Some np => fst np | None => -1 end.

Definition target_of (ev : env) (fs : fsys) (r : rname) : target :=
  let p := expand ev r in mkT (name_of fs p) p.

(* a request with the names as the caller wrote them *)
Record greq := mkGQ { gq_fields : list field; gq_efields : list field; gq_x : rname; gq_ext : option rname }.

Definition expand_req (ev : env) (fs : fsys) (q : greq) : wreq :=
  mkQ (gq_fields q) (gq_efields q) (target_of ev fs (gq_x q)) (option_map (target_of ev fs) (gq_ext q)).

Definition write_given (ev : env) (G : fsys -> field -> target -> bool)
           (fs : fsys) (q : greq) (o : wopts) (stamp : Z) : fsys * option errk :=
  write_model G fs (expand_req ev fs q) o stamp.

(* Seeded change (second round): the overwrite=False existence test made BEFORE the
   expansion: it looks at the name as given read as a literal path [lit]. *)
Definition write_given_test_unexpanded (lit : rname -> path) (ev : env) (G : fsys -> field -> target -> bool)
           (fs : fsys) (q : greq) (o : wopts) (stamp : Z) : fsys * option errk :=
  let w := expand_req ev fs q in
  write_one_t (lit (gq_x q)) G fs (q_fields w) (q_x w) o (ext_same (nodes fs) (q_x w) (q_ext w)) stamp.

(* ---- well-formedness --------------------------------------------------------- *)
(* no key lies strictly below another key: files and links are leaves *)
Definition tree_wf (nd : store) : Prop :=
  forall k k' v v', passoc k nd = Some v -> passoc k' nd = Some v' -> prefixb k k' = true -> k = k'.
